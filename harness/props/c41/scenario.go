// Scripted multi-step scenarios of C41.
//
// Every history plays one scenario at a seeded point of its random walk: a queue of steps, each
// generated against the state it meets (identities, admin, keys, clock of that moment), every
// step a real transaction in its own block followed by the usual verifyToken probes; random
// operations continue afterwards on whatever the scenario left behind.  The scenarios put the
// delegation table into the shapes the random walk practically never reaches (several
// delegators of one role to one identity around an expiry, renewals, chains); the expected
// verifyToken answers come from the same reference model as everywhere else.
package main

import (
	"fmt"

	"github.com/ontio/ontology-crypto/keypair"
	"github.com/ontio/ontology/core/payload"
	"github.com/ontio/ontology/core/types"
	"github.com/ontio/ontology/smartcontract/service/native/auth"
	"verifharness/lib/iddrv"
	"verifharness/lib/txgen"
	"verifharness/lib/vf"
)

type scen struct {
	h          *hist
	fam        string
	c          *cmodel
	role       string
	a, b, x, y string // a, b: direct holders (delegators); x, y: delegates
	o          string // the identity that is neither a, b nor x (may be "")
	e1, e2     uint32 // expiry of the first / of the latest accepted delegation
}

func (s *scen) count(k string) { s.h.r.Count("scenario/" + s.fam + "/" + k) }

func (s *scen) abort(why string) {
	s.count("aborted:" + why)
	s.h.queue, s.h.focus = nil, nil
}

func (s *scen) class() string {
	if s.h.rng.Chance(12) {
		return "right+extra"
	}
	return "right"
}

// at is the block time of a scripted step: target when it is still ahead, else the next second.
func (s *scen) at(target uint32) uint32 {
	if target > s.h.env.LastTs {
		return target
	}
	return s.h.env.LastTs + 1
}

func (s *scen) who(id string) string {
	switch id {
	case s.a:
		return "a"
	case s.b:
		return "b"
	case s.x:
		return "x"
	case s.y:
		return "y"
	}
	return "o"
}

// ---------------------------------------------------------------- atoms

func (s *scen) stAdmin() bool {
	if s.c.Admin != "" {
		return false
	}
	s.h.stepInit(s.c)
	if s.c.Admin == "" && !s.h.dead {
		s.abort("init-failed")
	}
	return true
}

func (s *scen) adminOK() bool {
	if len(s.h.liveKeys(s.c.Admin)) == 0 {
		s.abort("admin-without-live-key")
		return false
	}
	return true
}

// stHolders makes a (and b) direct holders of the role.
func (s *scen) stHolders() bool {
	var need []string
	for _, id := range []string{s.a, s.b} {
		if id != "" && !s.c.Direct[id][s.role] && (len(need) == 0 || need[0] != id) {
			need = append(need, id)
		}
	}
	if len(need) == 0 {
		return false
	}
	if !s.adminOK() {
		return false
	}
	k, sg, cl := s.h.control(s.c.Admin, s.class())
	if !s.h.doAssignIDs(s.c, s.role, need, s.c.Admin, k, sg, "scenario/"+cl) && !s.h.dead {
		s.abort("assign-holders-refused")
	}
	for _, id := range need {
		if s.c.Skipped[id][s.role] {
			s.abort("holder-assignment-skipped-by-contract")
		}
	}
	return true
}

// stMember gives the delegate another role first, so that it is an existing member of the
// contract (it owns a token list) and not a fresh identity.
func (s *scen) stMember() bool {
	if len(s.c.Direct[s.x]) > 0 {
		return false
	}
	var others []string
	for _, r := range roles {
		if r != s.role {
			others = append(others, r)
		}
	}
	if !s.adminOK() {
		return false
	}
	k, sg, cl := s.h.control(s.c.Admin, s.class())
	s.h.doAssignIDs(s.c, others[s.h.rng.Intn(len(others))], []string{s.x}, s.c.Admin, k, sg, "scenario/"+cl)
	return true
}

// stFuncs makes sure the role carries a function that the delegates do not have otherwise;
// without one the scenario could not show anything.
func (s *scen) stFuncs() bool {
	now := s.h.env.PreTime()
	var lacking []string
	for _, f := range fns[:len(fns)-1] {
		free := true
		for _, w := range []string{s.x, s.y} {
			if w == "" {
				continue
			}
			if ok, _ := roleAnswer(s.c, w, f, now); ok {
				free = false
			}
		}
		if free {
			if s.c.Funcs[s.role][f] {
				return false
			}
			lacking = append(lacking, f)
		}
	}
	if len(lacking) == 0 {
		s.abort("insensitive:delegate-has-every-function")
		return false
	}
	if !s.adminOK() {
		return false
	}
	k, sg, cl := s.h.control(s.c.Admin, s.class())
	if !s.h.doAssignFuncs(s.c, s.role, []string{lacking[s.h.rng.Intn(len(lacking))]}, s.c.Admin, k, sg, "scenario/"+cl) && !s.h.dead {
		s.abort("assign-funcs-refused")
	}
	return true
}

// holds: the model's role half for the delegate on the scenario's role right now.
func (s *scen) holds(id string) bool {
	now := s.h.env.PreTime()
	for f := range s.c.Funcs[s.role] {
		if ok, _ := roleAnswer(s.c, id, f, now); !ok {
			return false
		}
	}
	return len(s.c.Funcs[s.role]) > 0
}

func (s *scen) deleg(from, to string, level, period uint64, at uint32, tag string) bool {
	ts := s.at(at)
	rep := s.h.doDelegate(s.c, from, to, s.role, period, level, s.class(), s.fam+":"+tag, ts)
	if rep {
		s.e2 = ts + uint32(period)
	}
	return rep
}

func (s *scen) withdraw(initiator, delegate string) bool {
	rep := s.h.doWithdraw(s.c, initiator, delegate, s.role, s.class(), s.fam+":withdraw-by-"+s.who(initiator), s.at(0))
	return rep
}

// timeTo commits a block at ts (when it is ahead): the pre-execution probes then run at ts+1.
func (s *scen) timeTo(ts uint32) bool {
	if ts <= s.h.env.LastTs {
		return false
	}
	s.h.doTime(ts, "scenario")
	return true
}

// runOut lets the latest accepted delegation run out: probes at time == expiry and at expiry+1.
func (s *scen) runOut(q *[]func() bool, id func() string) {
	*q = append(*q,
		func() bool { return s.timeTo(s.e2 - 1) },
		func() bool {
			if s.h.env.PreTime() == s.e2 {
				s.count(fmt.Sprintf("run-out:delegate-holds-at-time==expiry=%v", s.holds(id())))
			}
			return s.timeTo(s.e2)
		},
		func() bool {
			s.count(fmt.Sprintf("run-out:delegate-holds-after-expiry=%v", s.holds(id())))
			return false
		})
}

// ---------------------------------------------------------------- cast

// cast picks contract, role and identities against the current state: an admin that can sign,
// nHold identities the role can be (or is) assigned to in the contract's own books, nDel
// identities that have nothing to do with the role yet; all with a live key.
func (h *hist) cast(fam string, nHold, nDel int) *scen {
	s := &scen{h: h, fam: fam}
	var alive []string
	for _, i := range h.rng.Perm(len(h.ids)) {
		if len(h.liveKeys(h.ids[i])) > 0 {
			alive = append(alive, h.ids[i])
		}
	}
	for _, ci := range h.rng.Perm(len(h.cs)) {
		c := h.cs[ci]
		admin := c.Admin
		if admin == "" {
			admin = c.AdminInit
		}
		if len(h.liveKeys(admin)) == 0 {
			continue
		}
		for _, ri := range h.rng.Perm(len(roles)) {
			role := roles[ri]
			var hold, del []string
			for _, id := range alive {
				clean := len(c.Deleg[id][role]) == 0 && c.CodeDeleg[id][role] == nil
				switch {
				case c.CodeDirect[id][role]:
					hold = append(hold, id)
				case c.Direct[id][role]: // assigned but not stored (known finding): useless here
				case clean:
					hold = append(hold, id)
					del = append(del, id)
				}
			}
			// the admin is one of the delegators in a part of the cases
			pick := map[string]bool{}
			var hs, ds []string
			if h.rng.Chance(40) {
				for _, id := range hold {
					if id == admin {
						hs = append(hs, id)
						pick[id] = true
					}
				}
			}
			for _, id := range del {
				if len(ds) < nDel && !pick[id] {
					ds = append(ds, id)
					pick[id] = true
				}
			}
			for _, id := range hold {
				if len(hs) < nHold && !pick[id] {
					hs = append(hs, id)
					pick[id] = true
				}
			}
			if len(ds) < nDel || len(hs) < nHold {
				continue
			}
			s.c, s.role = c, role
			s.a, s.x = hs[0], ds[0]
			if nHold > 1 {
				s.b = hs[1]
			}
			if nDel > 1 {
				s.y = ds[1]
			}
			for _, id := range h.ids {
				if !pick[id] {
					s.o = id
				}
			}
			return s
		}
	}
	return nil
}

// ---------------------------------------------------------------- scenarios

// Which scenario and which of its main variants a history plays is stratified over the history
// index (k = index of the history among those that play one), so that every variant is met
// about equally often in a run; the remaining choices and the point of the walk are seeded.
func (h *hist) enqueueScenario(k int) {
	fam := []string{"S1", "S1", "S2", "S3", "S4"}[k%5]
	vi := k / 5 // variant index within the family
	if fam == "S1" {
		vi = (k/5)*2 + k%5
	}
	need := map[string][2]int{"S1": {2, 1}, "S2": {2, 1}, "S3": {1, 1}, "S4": {2, 2}}[fam]
	s := h.cast(fam, need[0], need[1])
	if s == nil && fam == "S4" { // not four usable identities: one delegator plays both parts
		if s = h.cast(fam, 1, 2); s != nil {
			s.b = s.a
		}
	}
	if s == nil {
		h.r.Count("scenario/" + fam + "/no-cast")
		return
	}
	s.count("enqueued")
	h.focus = []focusRef{{s.c, s.x}}
	if s.y != "" {
		h.focus = append(h.focus, focusRef{s.c, s.y})
	}
	admin := s.c.Admin
	if admin == "" {
		admin = s.c.AdminInit
	}
	switch s.a {
	case admin:
		s.count("cast:a-is-admin")
	default:
		s.count("cast:a-is-not-admin")
		switch admin {
		case s.b:
			s.count("cast:b-is-admin")
		case s.x, s.y:
			s.count("cast:delegate-is-admin")
		default:
			s.count("cast:admin-outside")
		}
	}
	var q []func() bool
	q = append(q, s.stAdmin, s.stHolders)
	if h.rng.Chance(45) {
		q = append(q, s.stMember)
	}
	q = append(q, s.stFuncs, func() bool {
		member := len(s.c.Direct[s.x]) > 0
		for _, dl := range s.c.Deleg[s.x] {
			member = member || len(dl) > 0
		}
		if member {
			s.count("cast:x-is-a-member")
		} else {
			s.count("cast:x-is-fresh")
		}
		return false
	})
	switch fam {
	case "S1":
		s.s1(&q, vi)
	case "S2":
		s.s2(&q, vi)
	case "S3":
		s.s3(&q, vi)
	default:
		s.s4(&q, vi)
	}
	q = append(q, func() bool {
		s.count("completed")
		h.focus = nil
		return false
	})
	h.queue = q
}

// first: the first delegation a -> x (level 1) lasting period seconds, optionally preceded by
// attempts with a level the delegator may not hand out.
func (s *scen) first(q *[]func() bool, period func() uint64) {
	h := s.h
	if h.rng.Chance(25) {
		lvl := []uint64{0, 2, 3}[h.rng.Intn(3)]
		*q = append(*q, func() bool {
			rep := s.deleg(s.a, s.x, lvl, 20, 0, fmt.Sprintf("a-to-x:level-%d", lvl))
			s.count(fmt.Sprintf("first-delegation:level-%d=%v", lvl, rep))
			return true
		})
	}
	*q = append(*q, func() bool {
		rep := s.deleg(s.a, s.x, 1, period(), 0, "a-to-x")
		s.e1 = s.e2
		if !rep && !h.dead {
			s.abort("first-delegation-refused")
		}
		return true
	})
}

// S1: a delegates to x; that delegation expires; b delegates to x; withdrawals by b, by a (the
// former delegator), by a non-delegator; re-delegation after the withdrawal.
func (s *scen) s1(q *[]func() bool, vi int) {
	h := s.h
	early := h.rng.Chance(35)
	ends := []string{"b", "b,a", "a", "a,b", "o,b", "o", "b,redelegate-b,b", "b,redelegate-a,b,a", "none"}
	gap := []string{"time==expiry", "time==expiry+1", "later"}[(vi/len(ends))%3]
	end := ends[vi%len(ends)]
	s.first(q, func() uint64 {
		p := uint64(h.rng.Range(1, 4))
		if early {
			p++
		}
		return p
	})
	if early {
		*q = append(*q, func() bool {
			live := h.env.LastTs+1 < s.e1
			rep := s.deleg(s.b, s.x, 1, 25, 0, "b-to-x:before-a's-expired")
			if live {
				s.count(fmt.Sprintf("second-delegation:while-first-live=%v", rep))
			}
			return true
		})
	}
	var target uint32
	*q = append(*q, func() bool {
		switch gap {
		case "time==expiry":
			target = s.e1
		case "time==expiry+1":
			target = s.e1 + 1
		default:
			target = s.e1 + uint32(h.rng.Range(2, 6))
		}
		return s.timeTo(target - 1)
	}, func() bool {
		ts := s.at(target)
		switch {
		case ts < s.e1:
			gap = "before"
		case ts == s.e1:
			gap = "time==expiry"
		case ts == s.e1+1:
			gap = "time==expiry+1"
		default:
			gap = "later"
		}
		rep := s.deleg(s.b, s.x, 1, uint64(h.rng.Range(7, 11)), target, "b-to-x:a's-expired")
		s.count(fmt.Sprintf("second-delegation@%s=%v", gap, rep))
		if !rep && !h.dead {
			s.abort("second-delegation-refused")
		} else if s.holds(s.x) {
			s.count("x-holds-by-second-delegation")
		}
		return true
	})
	s.ending(q, end, "end="+end)
}

// ending plays withdrawals (and re-delegations) named in spec, then lets the clock run out.
func (s *scen) ending(q *[]func() bool, spec, tag string) {
	h := s.h
	*q = append(*q, func() bool { s.count(tag); return false })
	w := func(by func() string, name string) func() bool {
		return func() bool {
			id := by()
			if id == "" {
				return false
			}
			before := s.holds(s.x)
			rep := s.withdraw(id, s.x)
			s.count(fmt.Sprintf("withdraw-by-%s=%v", name, rep))
			if name == "non-delegator" {
				kind := "without-role"
				if id == s.x {
					kind = "the-delegate-itself"
				} else if s.c.Direct[id][s.role] {
					kind = "direct-holder"
				}
				s.count("non-delegator:" + kind)
			}
			if before && !s.holds(s.x) {
				s.count("x-denied-after-withdraw-by-" + name)
			}
			if before && s.holds(s.x) {
				s.count("x-still-holds-after-withdraw-by-" + name)
			}
			return true
		}
	}
	d := func(from func() string, name string) func() bool {
		return func() bool {
			rep := s.deleg(from(), s.x, 1, uint64(h.rng.Range(5, 8)), 0, "re-delegation-by-"+name)
			s.count(fmt.Sprintf("re-delegation-by-%s=%v", name, rep))
			return true
		}
	}
	a := func() string { return s.a }
	b := func() string { return s.b }
	o := func() string {
		// a non-delegator: the fourth identity, or the delegate itself
		if s.o != "" && len(h.liveKeys(s.o)) > 0 && (s.c.Direct[s.o][s.role] || h.rng.Chance(60)) {
			return s.o
		}
		return s.x
	}
	for _, part := range splitComma(spec) {
		switch part {
		case "a":
			*q = append(*q, w(a, "former-delegator"))
		case "b":
			*q = append(*q, w(b, "delegator"))
		case "o":
			if h.rng.Chance(50) {
				// the non-delegator is another direct holder of the role (it passes the
				// contract's own "initiator has the role" test)
				*q = append(*q, func() bool {
					if s.o == "" || len(h.liveKeys(s.o)) == 0 || s.c.Direct[s.o][s.role] || len(s.c.Deleg[s.o][s.role]) > 0 || len(h.liveKeys(s.c.Admin)) == 0 {
						return false
					}
					k, sg, cl := h.control(s.c.Admin, s.class())
					h.doAssignIDs(s.c, s.role, []string{s.o}, s.c.Admin, k, sg, "scenario/"+cl)
					return true
				})
			}
			*q = append(*q, w(o, "non-delegator"))
		case "redelegate-a":
			*q = append(*q, d(a, "former-delegator"))
		case "redelegate-b":
			*q = append(*q, d(b, "delegator"))
		}
	}
	s.runOut(q, func() string { return s.x })
}

func splitComma(s string) []string {
	var out []string
	cur := ""
	for _, r := range s {
		if r == ',' {
			out = append(out, cur)
			cur = ""
		} else {
			cur += string(r)
		}
	}
	return append(out, cur)
}

// S2: two delegators want the same role on x at the same time: the second one while the first
// delegation is live, at the very second the first one ends, after a withdrawal; one of the
// two is withdrawn, the other runs out.
func (s *scen) s2(q *[]func() bool, vi int) {
	h := s.h
	variant := []string{"b-withdraws,first-runs-out", "a-withdraws,b-delegates", "second-at-expiry-instant", "first-runs-out,second,first-again"}[vi%4]
	s.first(q, func() uint64 { return uint64(h.rng.Range(4, 9)) })
	second := func(tag string, at func() uint32) func() bool {
		return func() bool {
			ts := s.at(at())
			rel := "first-live"
			if cd := s.c.best(s.x, s.role); cd == nil {
				rel = "first-withdrawn"
			} else if ts == cd.Expiry {
				rel = "first-at-time==expiry"
			} else if ts > cd.Expiry {
				rel = "first-expired"
			}
			rep := s.deleg(s.b, s.x, 1, uint64(h.rng.Range(6, 10)), at(), "b-to-x:"+rel)
			s.count(fmt.Sprintf("second-delegation:%s=%v", rel, rep))
			return true
		}
	}
	now := func() uint32 { return 0 }
	wd := func(id func() string, name string) func() bool {
		return func() bool {
			before := s.holds(s.x)
			rep := s.withdraw(id(), s.x)
			s.count(fmt.Sprintf("withdraw-by-%s=%v", name, rep))
			if before {
				s.count(fmt.Sprintf("x-holds-after-withdraw-by-%s=%v", name, s.holds(s.x)))
			}
			return true
		}
	}
	a := func() string { return s.a }
	b := func() string { return s.b }
	*q = append(*q, func() bool { s.count("variant=" + variant); return false }, second("while-first-live", now))
	switch variant {
	case "b-withdraws,first-runs-out":
		*q = append(*q, wd(b, "refused-second-delegator"))
	case "a-withdraws,b-delegates":
		*q = append(*q, wd(a, "first-delegator"), second("after-withdraw", now), wd(a, "first-delegator-again"))
		if h.rng.Chance(50) {
			*q = append(*q, wd(b, "second-delegator"))
		}
	case "second-at-expiry-instant":
		*q = append(*q, func() bool { return s.timeTo(s.e1 - 1) }, second("at-expiry-instant", func() uint32 { return s.e1 }), wd(a, "first-delegator-after-expiry"))
		if h.rng.Chance(50) {
			*q = append(*q, wd(b, "second-delegator"))
		}
	default:
		*q = append(*q, func() bool { return s.timeTo(s.e1) }, second("after-expiry", func() uint32 { return s.e1 + 1 }),
			func() bool {
				rep := s.deleg(s.a, s.x, 1, uint64(h.rng.Range(12, 20)), 0, "a-to-x:again-while-second-live")
				s.count(fmt.Sprintf("first-delegator-again-while-second-live=%v", rep))
				return true
			}, wd(a, "first-delegator-after-expiry"))
		if h.rng.Chance(50) {
			*q = append(*q, wd(b, "second-delegator"))
		}
	}
	s.runOut(q, func() string { return s.x })
}

// S3: the same delegator delegates again: while its delegation is live (does it extend?), at
// the second it ends, after it ended, after withdrawing it; then withdraws or lets it run out.
func (s *scen) s3(q *[]func() bool, vi int) {
	h := s.h
	variant := []string{"renew-while-live,run-out", "renew-while-live,withdraw", "renew-at-expiry-instant", "renew-after-expiry", "withdraw,renew"}[vi%5]
	s.first(q, func() uint64 { return uint64(h.rng.Range(3, 6)) })
	renew := func(tag string, at func() uint32) func() bool {
		return func() bool {
			rep := s.deleg(s.a, s.x, 1, uint64(h.rng.Range(8, 14)), at(), "a-to-x:"+tag)
			s.count(fmt.Sprintf("%s=%v", tag, rep))
			return true
		}
	}
	wd := func() bool {
		before := s.holds(s.x)
		rep := s.withdraw(s.a, s.x)
		s.count(fmt.Sprintf("withdraw=%v", rep))
		if before {
			s.count(fmt.Sprintf("x-holds-after-withdraw=%v", s.holds(s.x)))
		}
		return true
	}
	*q = append(*q, func() bool { s.count("variant=" + variant); return false })
	switch variant {
	case "renew-while-live,run-out":
		*q = append(*q, renew("renew-while-live", func() uint32 { return 0 }))
		s.runOut(q, func() string { return s.x })
		*q = append(*q, wd) // withdrawing what has run out
		return
	case "renew-while-live,withdraw":
		*q = append(*q, renew("renew-while-live", func() uint32 { return 0 }), wd)
	case "renew-at-expiry-instant":
		*q = append(*q, func() bool { return s.timeTo(s.e1 - 1) }, renew("renew-at-time==expiry", func() uint32 { return s.e1 }))
		if h.rng.Chance(50) {
			*q = append(*q, wd)
		}
	case "renew-after-expiry":
		later := uint32(h.rng.Range(1, 4))
		*q = append(*q, func() bool { return s.timeTo(s.e1 + later - 1) }, renew("renew-after-expiry", func() uint32 { return s.e1 + later }))
		if h.rng.Chance(50) {
			*q = append(*q, wd)
		}
	default:
		*q = append(*q, wd, renew("renew-after-withdraw", func() uint32 { return 0 }))
		if h.rng.Chance(50) {
			*q = append(*q, wd)
		}
	}
	s.runOut(q, func() string { return s.x })
}

// S4: chains.  x holds the role by a's delegation and tries to pass it on to y (levels 0..2)
// while its own delegation is live, after it was withdrawn, after it expired; y must not get
// anything out of it.  Then b delegates to y properly; x and a cannot withdraw that.
func (s *scen) s4(q *[]func() bool, vi int) {
	h := s.h
	variant := []string{"middle-live", "middle-withdrawn", "middle-expires"}[vi%3]
	s.first(q, func() uint64 { return uint64(h.rng.Range(5, 9)) })
	chain := func(tag string) func() bool {
		return func() bool {
			lvl := []uint64{1, 1, 0, 2}[h.rng.Intn(4)]
			e := s.e2
			rep := s.deleg(s.x, s.y, lvl, uint64(h.rng.Range(2, 40)), 0, fmt.Sprintf("x-to-y:%s:level-%d", tag, lvl))
			s.e2 = e
			s.count(fmt.Sprintf("chain:%s=%v", tag, rep))
			s.count(fmt.Sprintf("chain:level-%d=%v", lvl, rep))
			if !s.holds(s.y) {
				s.count("y-holds-nothing-after-chain-attempt")
			}
			return true
		}
	}
	wdY := func(by func() string, name string) func() bool {
		return func() bool {
			before := s.holds(s.y)
			rep := s.h.doWithdraw(s.c, by(), s.y, s.role, s.class(), s.fam+":withdraw-y-by-"+name, s.at(0))
			s.count(fmt.Sprintf("withdraw-y-by-%s=%v", name, rep))
			if before {
				s.count(fmt.Sprintf("y-holds-after-withdraw-by-%s=%v", name, s.holds(s.y)))
			}
			return true
		}
	}
	a := func() string { return s.a }
	b := func() string { return s.b }
	x := func() string { return s.x }
	*q = append(*q, func() bool { s.count("variant=" + variant); return false }, chain("middle-live"))
	switch variant {
	case "middle-withdrawn":
		*q = append(*q, func() bool {
			rep := s.withdraw(s.a, s.x)
			s.count(fmt.Sprintf("withdraw-middle=%v", rep))
			return true
		}, chain("middle-withdrawn"))
	case "middle-expires":
		*q = append(*q, func() bool { return s.timeTo(s.e1 - 1) }, chain("middle-at-time==expiry"), func() bool { return s.timeTo(s.e1 + 1) }, chain("middle-expired"))
	}
	if h.rng.Chance(50) {
		*q = append(*q, wdY(x, "middle"))
	} else {
		*q = append(*q, wdY(a, "head"))
	}
	*q = append(*q, func() bool {
		rep := s.deleg(s.b, s.y, 1, uint64(h.rng.Range(5, 8)), 0, "b-to-y")
		s.count(fmt.Sprintf("proper-delegation-to-y=%v", rep))
		if rep && s.holds(s.y) {
			s.count("y-holds-by-proper-delegation")
		}
		return true
	})
	if h.rng.Chance(50) {
		*q = append(*q, wdY(x, "middle"))
	} else {
		*q = append(*q, wdY(a, "head"))
	}
	if h.rng.Chance(50) {
		*q = append(*q, wdY(b, "delegator"))
	}
	s.runOut(q, func() string { return s.y })
}

// ---------------------------------------------------------------- S5: phantom assignments

// S5: state changes that never become part of the ledger.  A role has a direct holder a and a
// delegate x (a's delegation, live throughout) and lacks a function F that neither of them has
// otherwise.  assignFuncsToRole(role, [F]) signed by the admin - alone, or followed in the same
// invoke script by verifyToken(holder, F) - is (1) only pre-executed, (2) mined in a transaction
// that faults after the calls (THROW), (3) mined in a transaction that runs out of gas after the
// calls, (4) mined as a faulting transaction followed in the same block by verifyToken(holder, F)
// and an unrelated successful transaction.  After each of them verifyToken(a|x, F) is probed
// pre-executed and mined: the model, which none of this touches, says false.  Then F is assigned
// for real (true).  The same for the other tables: a phantom assignOntIDsToRole(role, [y]) and a
// phantom delegate(a -> y) leave the outsider y without the role, a phantom withdraw(a, x) leaves
// x with it.
func (h *hist) enqueueS5(k int) {
	s := h.cast("S5", 1, 2)
	if s == nil {
		if s = h.cast("S5", 1, 1); s != nil {
			s.count("cast:no-outsider")
		}
	}
	if s == nil {
		h.r.Count("scenario/S5/no-cast")
		return
	}
	s.count("enqueued")
	h.focus = []focusRef{{s.c, s.a}, {s.c, s.x}}
	if s.y != "" {
		h.focus = append(h.focus, focusRef{s.c, s.y})
	}
	var q []func() bool
	q = append(q, s.stAdmin, s.stHolders, s.stFuncs)
	s.first(&q, func() uint64 { return uint64(h.rng.Range(90, 120)) }) // outlasts the scenario
	q = append(q, func() bool {
		if !s.holds(s.a) || !s.holds(s.x) {
			s.abort("holder-or-delegate-does-not-hold")
		}
		return false
	})

	// ---- the role -> functions table
	var F string
	q = append(q, func() bool {
		now := h.env.PreTime()
		var free []string
		for _, f := range fns[:len(fns)-1] {
			okA, _ := roleAnswer(s.c, s.a, f, now)
			okX, _ := roleAnswer(s.c, s.x, f, now)
			if !s.c.Funcs[s.role][f] && !okA && !okX {
				free = append(free, f)
			}
		}
		if len(free) == 0 {
			s.count("no-unassigned-function")
			return false
		}
		F = free[h.rng.Intn(len(free))]
		return false
	})
	type tr struct{ what, transport string }
	trs := []tr{{"assign-funcs", "pre-exec"}, {"assign-funcs+verify", "pre-exec"}, {"assign-funcs+verify", "mined-throw"},
		{"assign-funcs+verify", "mined-out-of-gas"}, {"assign-funcs+verify", "mined-throw-then-other-txs"}}
	for i := range trs {
		t := trs[(k+i)%len(trs)]
		first := i == 0
		q = append(q, func() bool {
			if F == "" || !s.adminOK() {
				return false
			}
			holder := []string{s.a, s.x}[h.rng.Intn(2)]
			k1, sg1, _ := h.control(s.c.Admin, "right")
			code := authCode("assignFuncsToRole", &auth.FuncsToRoleParam{ContractAddr: s.c.Addr, AdminOntID: []byte(s.c.Admin), Role: []byte(s.role), FuncNames: []string{F}, KeyNo: k1})
			calls := []string{fmt.Sprintf("assignFuncsToRole(%s,[%s]) by the admin keyNo=%d", s.role, F, k1)}
			signers := sg1
			if t.what != "assign-funcs" {
				k2, sg2, _ := h.control(holder, "right")
				code = append(code, s.verifyCode(holder, F, k2)...)
				calls = append(calls, fmt.Sprintf("verifyToken(%s,%s) keyNo=%d", s.who(holder), F, k2))
				signers = mergeKeys(sg1, sg2)
			}
			var follow []s5probe
			if t.transport == "mined-throw-then-other-txs" {
				follow = []s5probe{{holder, F}}
				for _, f := range fns {
					if s.c.Funcs[s.role][f] {
						follow = append(follow, s5probe{s.a, f}) // the unrelated successful transaction
						break
					}
				}
			}
			ran, inTx := s.phantom(t.what, t.transport, code, signers, calls, follow)
			if ran {
				s.count("funcs-phantom:" + t.what + ":" + t.transport)
				if first {
					s.count("funcs-phantom-played-first:" + t.what + ":" + t.transport)
				}
				if t.transport == "pre-exec" && t.what != "assign-funcs" {
					s.count(fmt.Sprintf("funcs-phantom:verifyToken-inside-the-transaction=%v", inTx))
				}
			}
			return ran
		}, func() bool {
			if F == "" {
				return false
			}
			return s.minedBlock(nil, []s5probe{{s.a, F}, {s.x, F}}, "mined-probes-after-phantom:"+t.what+":"+t.transport)
		})
	}
	q = append(q, func() bool {
		if F == "" || !s.adminOK() {
			return false
		}
		k, sg, cl := h.control(s.c.Admin, s.class())
		rep := h.doAssignFuncs(s.c, s.role, []string{F}, s.c.Admin, k, sg, "scenario/"+cl)
		s.count(fmt.Sprintf("real-assignment-after-phantoms=%v", rep))
		return true
	}, func() bool {
		if F == "" || !s.c.Funcs[s.role][F] {
			return false
		}
		if s.holds(s.a) && s.holds(s.x) {
			s.count("holder-and-delegate-have-F-after-real-assignment")
		}
		return s.minedBlock(nil, []s5probe{{s.a, F}, {s.x, F}}, "mined-probes-after-real-assignment")
	})

	// ---- the identity -> roles table: direct assignment, delegation, withdrawal
	roleFn := func(lackedBy string) string {
		now := h.env.PreTime()
		for _, f := range fns {
			if ok, _ := roleAnswer(s.c, lackedBy, f, now); s.c.Funcs[s.role][f] && (lackedBy == "" || !ok) {
				return f
			}
		}
		return ""
	}
	pick := func() string { return []string{"pre-exec", "mined-throw", "mined-out-of-gas"}[h.rng.Intn(3)] }
	outsider := func(name string, build func(f string) ([]byte, []*txgen.Key, string)) func() bool {
		return func() bool {
			if s.y == "" || len(h.liveKeys(s.y)) == 0 || s.c.Direct[s.y][s.role] || len(s.c.Deleg[s.y][s.role]) > 0 {
				return false
			}
			f := roleFn(s.y)
			if f == "" || !s.adminOK() || len(h.liveKeys(s.a)) == 0 {
				return false
			}
			code, sg1, desc := build(f)
			k2, sg2, _ := h.control(s.y, "right")
			code = append(code, s.verifyCode(s.y, f, k2)...)
			transport := pick()
			ran, inTx := s.phantom(name, transport, code, mergeKeys(sg1, sg2), []string{desc, fmt.Sprintf("verifyToken(y,%s) keyNo=%d", f, k2)}, nil)
			if ran {
				s.count("ids-phantom:" + name + ":" + transport)
				if transport == "pre-exec" {
					s.count(fmt.Sprintf("ids-phantom:%s:verifyToken-inside-the-transaction=%v", name, inTx))
				}
				if !s.holds(s.y) {
					s.count("outsider-holds-nothing-after-" + name)
				}
			}
			return ran
		}
	}
	probeY := func(tag string) func() bool {
		return func() bool {
			f := roleFn("")
			if s.y == "" || f == "" || len(h.liveKeys(s.y)) == 0 {
				return false
			}
			return s.minedBlock(nil, []s5probe{{s.y, f}, {s.x, f}}, "mined-probes-after-phantom:"+tag)
		}
	}
	q = append(q, outsider("assign-ids+verify", func(f string) ([]byte, []*txgen.Key, string) {
		k1, sg1, _ := h.control(s.c.Admin, "right")
		return authCode("assignOntIDsToRole", &auth.OntIDsToRoleParam{ContractAddr: s.c.Addr, AdminOntID: []byte(s.c.Admin), Role: []byte(s.role), Persons: [][]byte{[]byte(s.y)}, KeyNo: k1}),
			sg1, fmt.Sprintf("assignOntIDsToRole(%s,[y]) by the admin keyNo=%d", s.role, k1)
	}), probeY("assign-ids+verify"), outsider("delegate+verify", func(f string) ([]byte, []*txgen.Key, string) {
		k1, sg1, _ := h.control(s.a, "right")
		return authCode("delegate", &auth.DelegateParam{ContractAddr: s.c.Addr, From: []byte(s.a), To: []byte(s.y), Role: []byte(s.role), Period: 60, Level: 1, KeyNo: k1}),
			sg1, fmt.Sprintf("delegate(a->y,%s,period=60,level=1) keyNo=%d", s.role, k1)
	}), probeY("delegate+verify"), func() bool {
		// the reverse: a withdrawal that never happened leaves the delegate authorised
		f := roleFn("")
		if f == "" || !s.holds(s.x) || len(h.liveKeys(s.a)) == 0 || len(h.liveKeys(s.x)) == 0 {
			return false
		}
		k1, sg1, _ := h.control(s.a, "right")
		k2, sg2, _ := h.control(s.x, "right")
		code := authCode("withdraw", &auth.WithdrawParam{ContractAddr: s.c.Addr, Initiator: []byte(s.a), Delegate: []byte(s.x), Role: []byte(s.role), KeyNo: k1})
		code = append(code, s.verifyCode(s.x, f, k2)...)
		transport := pick()
		ran, inTx := s.phantom("withdraw+verify", transport, code, mergeKeys(sg1, sg2), []string{fmt.Sprintf("withdraw(a,x,%s) keyNo=%d", s.role, k1), fmt.Sprintf("verifyToken(x,%s) keyNo=%d", f, k2)}, nil)
		if ran {
			s.count("ids-phantom:withdraw+verify:" + transport)
			if transport == "pre-exec" {
				s.count(fmt.Sprintf("ids-phantom:withdraw+verify:verifyToken-inside-the-transaction=%v", inTx))
			}
			if s.holds(s.x) {
				s.count("delegate-still-holds-after-withdraw+verify")
			}
		}
		return ran
	}, func() bool {
		f := roleFn("")
		if f == "" || len(h.liveKeys(s.x)) == 0 {
			return false
		}
		return s.minedBlock(nil, []s5probe{{s.x, f}}, "mined-probes-after-phantom:withdraw+verify")
	}, func() bool {
		s.count("completed")
		h.focus = nil
		return false
	})
	h.queue = q
}

type s5probe struct{ caller, fn string }

var (
	codeThrow = []byte{0xf0}             // THROW: the script faults after the calls before it
	codeSpin  = []byte{0x62, 0x00, 0x00} // JMP to itself: burns gas until the transaction's limit is reached
)

const spinGasLimit = 30000 // the native calls of a phantom script use a few thousand

func mergeKeys(a, b []*txgen.Key) []*txgen.Key {
	out := append([]*txgen.Key{}, a...)
	for _, k := range b {
		dup := false
		for _, o := range out {
			dup = dup || o == k
		}
		if !dup {
			out = append(out, k)
		}
	}
	return out
}

func (s *scen) verifyCode(caller, fn string, keyNo uint64) []byte {
	return authCode("verifyToken", &auth.VerifyTokenParam{ContractAddr: s.c.Addr, Caller: []byte(caller), Fn: fn, KeyNo: keyNo})
}

// gasTx is env.Tx with a chosen gas limit (nonces from a range env.Tx never reaches; the scripts
// carry the history's own identities, so transactions of different histories cannot collide).
func (h *hist) gasTx(code []byte, signers []*txgen.Key, gasLimit uint64) (*types.Transaction, error) {
	h.pnonce++
	mt := &types.MutableTransaction{GasPrice: 0, GasLimit: gasLimit, TxType: types.InvokeNeo, Nonce: 0x70000000 + h.pnonce,
		Payload: &payload.InvokeCode{Code: code}, Sigs: []types.Sig{}}
	if len(signers) > 0 {
		mt.Payer = signers[0].Address()
	}
	hash := mt.Hash()
	for _, k := range signers {
		sig, err := k.Sign(hash[:])
		if err != nil {
			return nil, err
		}
		mt.Sigs = append(mt.Sigs, types.Sig{PubKeys: []keypair.PublicKey{k.Pub}, M: 1, SigData: [][]byte{sig}})
	}
	return mt.IntoImmutable()
}

// phantom runs the script so that nothing of it becomes part of the ledger.  inTx is the script's
// own result (the last call's answer) where the transport shows it (pre-execution).
func (s *scen) phantom(what, transport string, code []byte, signers []*txgen.Key, calls []string, follow []s5probe) (ran, inTx bool) {
	h := s.h
	step := map[string]interface{}{"op": "S5:phantom", "what": what, "transport": transport, "contract": s.c.Name, "script": calls, "tx_signers": labels(signers)}
	if transport == "pre-exec" {
		tx, err := h.env.ProbeTx(code, signers)
		if err != nil {
			h.dead = true
			return false, false
		}
		var pr iddrv.PreResult
		if p := vf.Catch(func() { pr = h.env.Pre(tx) }); p != nil {
			h.r.Violation("panic-in-pre-execution", fmt.Sprint(p), h.witness(map[string]interface{}{"step": step}))
			h.dead = true
			return false, false
		}
		step["time"], step["pre_exec_ok"], step["pre_exec_result"] = h.env.PreTime(), pr.OK, pr.Hex
		h.log = append(h.log, step)
		if !pr.OK {
			s.count("phantom-script-failed-in-pre-execution:" + what)
		}
		return true, pr.True()
	}
	var tx *types.Transaction
	var err error
	if transport == "mined-out-of-gas" {
		tx, err = h.gasTx(append(append([]byte{}, code...), codeSpin...), signers, spinGasLimit)
	} else {
		tx, err = h.env.Tx(append(append([]byte{}, code...), codeThrow...), signers)
	}
	if err != nil {
		h.r.Inconclusive(fmt.Sprintf("history %d: tx build: %v", h.idx, err))
		h.dead = true
		return false, false
	}
	h.log = append(h.log, step)
	if len(follow) > 0 {
		step["followed_in_the_same_block_by"] = len(follow)
		lead, ok := s.minedBlockRes([]*types.Transaction{tx}, follow, "same-block-probes-after-phantom:"+what)
		if !ok {
			return false, false
		}
		step["time"] = h.env.LastTs
		s.failed(lead[0], what, transport)
		return true, false
	}
	var res []iddrv.TxResult
	var cerr error
	if p := vf.Catch(func() { res, cerr = h.env.Commit([]*types.Transaction{tx}, h.nextTs()) }); p != nil {
		h.r.Violation("panic-in-block-execution", fmt.Sprint(p), h.witness(nil))
		h.dead, h.broken = true, true
		return false, false
	}
	if cerr != nil {
		h.r.Inconclusive(fmt.Sprintf("history %d: commit: %v", h.idx, cerr))
		h.dead, h.broken = true, true
		return false, false
	}
	step["time"] = h.env.LastTs
	s.failed(res[0], what, transport)
	return true, false
}

// failed: the mined phantom transaction must have failed (else it was no phantom: harness error).
func (s *scen) failed(res iddrv.TxResult, what, transport string) {
	if res.State != 0 {
		s.h.r.Inconclusive(fmt.Sprintf("history %d: S5 phantom transaction (%s, %s) did not fail", s.h.idx, what, transport))
		s.h.dead = true
	}
}

func (s *scen) minedBlock(lead []*types.Transaction, probes []s5probe, tag string) bool {
	_, ok := s.minedBlockRes(lead, probes, tag)
	return ok
}

// minedBlockRes commits one block: the leading transactions, then one verifyToken transaction per
// probe (the caller's right key), each judged against the model at the block's time.
func (s *scen) minedBlockRes(lead []*types.Transaction, probes []s5probe, tag string) ([]iddrv.TxResult, bool) {
	h := s.h
	type pk struct {
		keyNo uint64
		sg    []*txgen.Key
	}
	txs := append([]*types.Transaction{}, lead...)
	var pks []pk
	for _, p := range probes {
		k, sg, _ := h.control(p.caller, "right")
		tx, err := h.env.Tx(s.verifyCode(p.caller, p.fn, k), sg)
		if err != nil {
			h.dead = true
			return nil, false
		}
		txs = append(txs, tx)
		pks = append(pks, pk{k, sg})
	}
	ts := h.nextTs()
	var res []iddrv.TxResult
	var cerr error
	if p := vf.Catch(func() { res, cerr = h.env.Commit(txs, ts) }); p != nil {
		h.r.Violation("panic-in-block-execution", fmt.Sprint(p), h.witness(nil))
		h.dead, h.broken = true, true
		return nil, false
	}
	if cerr != nil {
		h.r.Inconclusive(fmt.Sprintf("history %d: commit: %v", h.idx, cerr))
		h.dead, h.broken = true, true
		return nil, false
	}
	var desc []string
	for _, p := range probes {
		desc = append(desc, fmt.Sprintf("verifyToken(%s,%s)", s.who(p.caller), p.fn))
	}
	h.log = append(h.log, map[string]interface{}{"op": "S5:" + tag, "contract": s.c.Name, "time": ts, "leading_txs": len(lead), "in_block_probes": desc})
	for i, p := range probes {
		got := reported(res[len(lead)+i], "verifyToken")
		want, why := h.answer(s.c, p.caller, p.fn, pks[i].keyNo, pks[i].sg, ts)
		s.count(fmt.Sprintf("mined-probe=%v", want))
		h.judge(s.c, p.caller, p.fn, pks[i].keyNo, pks[i].sg, "right", ts, got, want, why, "in-block")
		if h.dead {
			return res, false
		}
	}
	return res, true
}
