// Scripted multi-step scenarios of C41.
//
// Every history plays one scenario at a seeded point of its random walk: a queue of steps, each
// generated against the state it meets (identities, admin, keys, clock of that moment), every
// step a real transaction in its own block followed by the usual verifyToken probes; random
// operations continue afterwards on whatever the scenario left behind.  The scenarios put the
// delegation table into the shapes the random walk practically never reaches (several
// delegators of one role to one identity around an expiry, renewals, chains); the expected
// verifyToken answers come from the same reference model as everywhere else.
package main

import (
	"fmt"
)

type scen struct {
	h          *hist
	fam        string
	c          *cmodel
	role       string
	a, b, x, y string // a, b: direct holders (delegators); x, y: delegates
	o          string // the identity that is neither a, b nor x (may be "")
	e1, e2     uint32 // expiry of the first / of the latest accepted delegation
}

func (s *scen) count(k string) { s.h.r.Count("scenario/" + s.fam + "/" + k) }

func (s *scen) abort(why string) {
	s.count("aborted:" + why)
	s.h.queue, s.h.focus = nil, nil
}

func (s *scen) class() string {
	if s.h.rng.Chance(12) {
		return "right+extra"
	}
	return "right"
}

// at is the block time of a scripted step: target when it is still ahead, else the next second.
func (s *scen) at(target uint32) uint32 {
	if target > s.h.env.LastTs {
		return target
	}
	return s.h.env.LastTs + 1
}

func (s *scen) who(id string) string {
	switch id {
	case s.a:
		return "a"
	case s.b:
		return "b"
	case s.x:
		return "x"
	case s.y:
		return "y"
	}
	return "o"
}

// ---------------------------------------------------------------- atoms

func (s *scen) stAdmin() bool {
	if s.c.Admin != "" {
		return false
	}
	s.h.stepInit(s.c)
	if s.c.Admin == "" && !s.h.dead {
		s.abort("init-failed")
	}
	return true
}

func (s *scen) adminOK() bool {
	if len(s.h.liveKeys(s.c.Admin)) == 0 {
		s.abort("admin-without-live-key")
		return false
	}
	return true
}

// stHolders makes a (and b) direct holders of the role.
func (s *scen) stHolders() bool {
	var need []string
	for _, id := range []string{s.a, s.b} {
		if id != "" && !s.c.Direct[id][s.role] && (len(need) == 0 || need[0] != id) {
			need = append(need, id)
		}
	}
	if len(need) == 0 {
		return false
	}
	if !s.adminOK() {
		return false
	}
	k, sg, cl := s.h.control(s.c.Admin, s.class())
	if !s.h.doAssignIDs(s.c, s.role, need, s.c.Admin, k, sg, "scenario/"+cl) && !s.h.dead {
		s.abort("assign-holders-refused")
	}
	for _, id := range need {
		if s.c.Skipped[id][s.role] {
			s.abort("holder-assignment-skipped-by-contract")
		}
	}
	return true
}

// stMember gives the delegate another role first, so that it is an existing member of the
// contract (it owns a token list) and not a fresh identity.
func (s *scen) stMember() bool {
	if len(s.c.Direct[s.x]) > 0 {
		return false
	}
	var others []string
	for _, r := range roles {
		if r != s.role {
			others = append(others, r)
		}
	}
	if !s.adminOK() {
		return false
	}
	k, sg, cl := s.h.control(s.c.Admin, s.class())
	s.h.doAssignIDs(s.c, others[s.h.rng.Intn(len(others))], []string{s.x}, s.c.Admin, k, sg, "scenario/"+cl)
	return true
}

// stFuncs makes sure the role carries a function that the delegates do not have otherwise;
// without one the scenario could not show anything.
func (s *scen) stFuncs() bool {
	now := s.h.env.PreTime()
	var lacking []string
	for _, f := range fns[:len(fns)-1] {
		free := true
		for _, w := range []string{s.x, s.y} {
			if w == "" {
				continue
			}
			if ok, _ := roleAnswer(s.c, w, f, now); ok {
				free = false
			}
		}
		if free {
			if s.c.Funcs[s.role][f] {
				return false
			}
			lacking = append(lacking, f)
		}
	}
	if len(lacking) == 0 {
		s.abort("insensitive:delegate-has-every-function")
		return false
	}
	if !s.adminOK() {
		return false
	}
	k, sg, cl := s.h.control(s.c.Admin, s.class())
	if !s.h.doAssignFuncs(s.c, s.role, []string{lacking[s.h.rng.Intn(len(lacking))]}, s.c.Admin, k, sg, "scenario/"+cl) && !s.h.dead {
		s.abort("assign-funcs-refused")
	}
	return true
}

// holds: the model's role half for the delegate on the scenario's role right now.
func (s *scen) holds(id string) bool {
	now := s.h.env.PreTime()
	for f := range s.c.Funcs[s.role] {
		if ok, _ := roleAnswer(s.c, id, f, now); !ok {
			return false
		}
	}
	return len(s.c.Funcs[s.role]) > 0
}

func (s *scen) deleg(from, to string, level, period uint64, at uint32, tag string) bool {
	ts := s.at(at)
	rep := s.h.doDelegate(s.c, from, to, s.role, period, level, s.class(), s.fam+":"+tag, ts)
	if rep {
		s.e2 = ts + uint32(period)
	}
	return rep
}

func (s *scen) withdraw(initiator, delegate string) bool {
	rep := s.h.doWithdraw(s.c, initiator, delegate, s.role, s.class(), s.fam+":withdraw-by-"+s.who(initiator), s.at(0))
	return rep
}

// timeTo commits a block at ts (when it is ahead): the pre-execution probes then run at ts+1.
func (s *scen) timeTo(ts uint32) bool {
	if ts <= s.h.env.LastTs {
		return false
	}
	s.h.doTime(ts, "scenario")
	return true
}

// runOut lets the latest accepted delegation run out: probes at time == expiry and at expiry+1.
func (s *scen) runOut(q *[]func() bool, id func() string) {
	*q = append(*q,
		func() bool { return s.timeTo(s.e2 - 1) },
		func() bool {
			if s.h.env.PreTime() == s.e2 {
				s.count(fmt.Sprintf("run-out:delegate-holds-at-time==expiry=%v", s.holds(id())))
			}
			return s.timeTo(s.e2)
		},
		func() bool {
			s.count(fmt.Sprintf("run-out:delegate-holds-after-expiry=%v", s.holds(id())))
			return false
		})
}

// ---------------------------------------------------------------- cast

// cast picks contract, role and identities against the current state: an admin that can sign,
// nHold identities the role can be (or is) assigned to in the contract's own books, nDel
// identities that have nothing to do with the role yet; all with a live key.
func (h *hist) cast(fam string, nHold, nDel int) *scen {
	s := &scen{h: h, fam: fam}
	var alive []string
	for _, i := range h.rng.Perm(len(h.ids)) {
		if len(h.liveKeys(h.ids[i])) > 0 {
			alive = append(alive, h.ids[i])
		}
	}
	for _, ci := range h.rng.Perm(len(h.cs)) {
		c := h.cs[ci]
		admin := c.Admin
		if admin == "" {
			admin = c.AdminInit
		}
		if len(h.liveKeys(admin)) == 0 {
			continue
		}
		for _, ri := range h.rng.Perm(len(roles)) {
			role := roles[ri]
			var hold, del []string
			for _, id := range alive {
				clean := len(c.Deleg[id][role]) == 0 && c.CodeDeleg[id][role] == nil
				switch {
				case c.CodeDirect[id][role]:
					hold = append(hold, id)
				case c.Direct[id][role]: // assigned but not stored (known finding): useless here
				case clean:
					hold = append(hold, id)
					del = append(del, id)
				}
			}
			// the admin is one of the delegators in a part of the cases
			pick := map[string]bool{}
			var hs, ds []string
			if h.rng.Chance(40) {
				for _, id := range hold {
					if id == admin {
						hs = append(hs, id)
						pick[id] = true
					}
				}
			}
			for _, id := range del {
				if len(ds) < nDel && !pick[id] {
					ds = append(ds, id)
					pick[id] = true
				}
			}
			for _, id := range hold {
				if len(hs) < nHold && !pick[id] {
					hs = append(hs, id)
					pick[id] = true
				}
			}
			if len(ds) < nDel || len(hs) < nHold {
				continue
			}
			s.c, s.role = c, role
			s.a, s.x = hs[0], ds[0]
			if nHold > 1 {
				s.b = hs[1]
			}
			if nDel > 1 {
				s.y = ds[1]
			}
			for _, id := range h.ids {
				if !pick[id] {
					s.o = id
				}
			}
			return s
		}
	}
	return nil
}

// ---------------------------------------------------------------- scenarios

// Which scenario and which of its main variants a history plays is stratified over the history
// index (k = index of the history among those that play one), so that every variant is met
// about equally often in a run; the remaining choices and the point of the walk are seeded.
func (h *hist) enqueueScenario(k int) {
	fam := []string{"S1", "S1", "S2", "S3", "S4"}[k%5]
	vi := k / 5 // variant index within the family
	if fam == "S1" {
		vi = (k/5)*2 + k%5
	}
	need := map[string][2]int{"S1": {2, 1}, "S2": {2, 1}, "S3": {1, 1}, "S4": {2, 2}}[fam]
	s := h.cast(fam, need[0], need[1])
	if s == nil && fam == "S4" { // not four usable identities: one delegator plays both parts
		if s = h.cast(fam, 1, 2); s != nil {
			s.b = s.a
		}
	}
	if s == nil {
		h.r.Count("scenario/" + fam + "/no-cast")
		return
	}
	s.count("enqueued")
	h.focus = []focusRef{{s.c, s.x}}
	if s.y != "" {
		h.focus = append(h.focus, focusRef{s.c, s.y})
	}
	admin := s.c.Admin
	if admin == "" {
		admin = s.c.AdminInit
	}
	switch s.a {
	case admin:
		s.count("cast:a-is-admin")
	default:
		s.count("cast:a-is-not-admin")
		switch admin {
		case s.b:
			s.count("cast:b-is-admin")
		case s.x, s.y:
			s.count("cast:delegate-is-admin")
		default:
			s.count("cast:admin-outside")
		}
	}
	var q []func() bool
	q = append(q, s.stAdmin, s.stHolders)
	if h.rng.Chance(45) {
		q = append(q, s.stMember)
	}
	q = append(q, s.stFuncs, func() bool {
		member := len(s.c.Direct[s.x]) > 0
		for _, dl := range s.c.Deleg[s.x] {
			member = member || len(dl) > 0
		}
		if member {
			s.count("cast:x-is-a-member")
		} else {
			s.count("cast:x-is-fresh")
		}
		return false
	})
	switch fam {
	case "S1":
		s.s1(&q, vi)
	case "S2":
		s.s2(&q, vi)
	case "S3":
		s.s3(&q, vi)
	default:
		s.s4(&q, vi)
	}
	q = append(q, func() bool {
		s.count("completed")
		h.focus = nil
		return false
	})
	h.queue = q
}

// first: the first delegation a -> x (level 1) lasting period seconds, optionally preceded by
// attempts with a level the delegator may not hand out.
func (s *scen) first(q *[]func() bool, period func() uint64) {
	h := s.h
	if h.rng.Chance(25) {
		lvl := []uint64{0, 2, 3}[h.rng.Intn(3)]
		*q = append(*q, func() bool {
			rep := s.deleg(s.a, s.x, lvl, 20, 0, fmt.Sprintf("a-to-x:level-%d", lvl))
			s.count(fmt.Sprintf("first-delegation:level-%d=%v", lvl, rep))
			return true
		})
	}
	*q = append(*q, func() bool {
		rep := s.deleg(s.a, s.x, 1, period(), 0, "a-to-x")
		s.e1 = s.e2
		if !rep && !h.dead {
			s.abort("first-delegation-refused")
		}
		return true
	})
}

// S1: a delegates to x; that delegation expires; b delegates to x; withdrawals by b, by a (the
// former delegator), by a non-delegator; re-delegation after the withdrawal.
func (s *scen) s1(q *[]func() bool, vi int) {
	h := s.h
	early := h.rng.Chance(35)
	ends := []string{"b", "b,a", "a", "a,b", "o,b", "o", "b,redelegate-b,b", "b,redelegate-a,b,a", "none"}
	gap := []string{"time==expiry", "time==expiry+1", "later"}[(vi/len(ends))%3]
	end := ends[vi%len(ends)]
	s.first(q, func() uint64 {
		p := uint64(h.rng.Range(1, 4))
		if early {
			p++
		}
		return p
	})
	if early {
		*q = append(*q, func() bool {
			live := h.env.LastTs+1 < s.e1
			rep := s.deleg(s.b, s.x, 1, 25, 0, "b-to-x:before-a's-expired")
			if live {
				s.count(fmt.Sprintf("second-delegation:while-first-live=%v", rep))
			}
			return true
		})
	}
	var target uint32
	*q = append(*q, func() bool {
		switch gap {
		case "time==expiry":
			target = s.e1
		case "time==expiry+1":
			target = s.e1 + 1
		default:
			target = s.e1 + uint32(h.rng.Range(2, 6))
		}
		return s.timeTo(target - 1)
	}, func() bool {
		ts := s.at(target)
		switch {
		case ts < s.e1:
			gap = "before"
		case ts == s.e1:
			gap = "time==expiry"
		case ts == s.e1+1:
			gap = "time==expiry+1"
		default:
			gap = "later"
		}
		rep := s.deleg(s.b, s.x, 1, uint64(h.rng.Range(7, 11)), target, "b-to-x:a's-expired")
		s.count(fmt.Sprintf("second-delegation@%s=%v", gap, rep))
		if !rep && !h.dead {
			s.abort("second-delegation-refused")
		} else if s.holds(s.x) {
			s.count("x-holds-by-second-delegation")
		}
		return true
	})
	s.ending(q, end, "end="+end)
}

// ending plays withdrawals (and re-delegations) named in spec, then lets the clock run out.
func (s *scen) ending(q *[]func() bool, spec, tag string) {
	h := s.h
	*q = append(*q, func() bool { s.count(tag); return false })
	w := func(by func() string, name string) func() bool {
		return func() bool {
			id := by()
			if id == "" {
				return false
			}
			before := s.holds(s.x)
			rep := s.withdraw(id, s.x)
			s.count(fmt.Sprintf("withdraw-by-%s=%v", name, rep))
			if name == "non-delegator" {
				kind := "without-role"
				if id == s.x {
					kind = "the-delegate-itself"
				} else if s.c.Direct[id][s.role] {
					kind = "direct-holder"
				}
				s.count("non-delegator:" + kind)
			}
			if before && !s.holds(s.x) {
				s.count("x-denied-after-withdraw-by-" + name)
			}
			if before && s.holds(s.x) {
				s.count("x-still-holds-after-withdraw-by-" + name)
			}
			return true
		}
	}
	d := func(from func() string, name string) func() bool {
		return func() bool {
			rep := s.deleg(from(), s.x, 1, uint64(h.rng.Range(5, 8)), 0, "re-delegation-by-"+name)
			s.count(fmt.Sprintf("re-delegation-by-%s=%v", name, rep))
			return true
		}
	}
	a := func() string { return s.a }
	b := func() string { return s.b }
	o := func() string {
		// a non-delegator: the fourth identity, or the delegate itself
		if s.o != "" && len(h.liveKeys(s.o)) > 0 && (s.c.Direct[s.o][s.role] || h.rng.Chance(60)) {
			return s.o
		}
		return s.x
	}
	for _, part := range splitComma(spec) {
		switch part {
		case "a":
			*q = append(*q, w(a, "former-delegator"))
		case "b":
			*q = append(*q, w(b, "delegator"))
		case "o":
			if h.rng.Chance(50) {
				// the non-delegator is another direct holder of the role (it passes the
				// contract's own "initiator has the role" test)
				*q = append(*q, func() bool {
					if s.o == "" || len(h.liveKeys(s.o)) == 0 || s.c.Direct[s.o][s.role] || len(s.c.Deleg[s.o][s.role]) > 0 || len(h.liveKeys(s.c.Admin)) == 0 {
						return false
					}
					k, sg, cl := h.control(s.c.Admin, s.class())
					h.doAssignIDs(s.c, s.role, []string{s.o}, s.c.Admin, k, sg, "scenario/"+cl)
					return true
				})
			}
			*q = append(*q, w(o, "non-delegator"))
		case "redelegate-a":
			*q = append(*q, d(a, "former-delegator"))
		case "redelegate-b":
			*q = append(*q, d(b, "delegator"))
		}
	}
	s.runOut(q, func() string { return s.x })
}

func splitComma(s string) []string {
	var out []string
	cur := ""
	for _, r := range s {
		if r == ',' {
			out = append(out, cur)
			cur = ""
		} else {
			cur += string(r)
		}
	}
	return append(out, cur)
}

// S2: two delegators want the same role on x at the same time: the second one while the first
// delegation is live, at the very second the first one ends, after a withdrawal; one of the
// two is withdrawn, the other runs out.
func (s *scen) s2(q *[]func() bool, vi int) {
	h := s.h
	variant := []string{"b-withdraws,first-runs-out", "a-withdraws,b-delegates", "second-at-expiry-instant", "first-runs-out,second,first-again"}[vi%4]
	s.first(q, func() uint64 { return uint64(h.rng.Range(4, 9)) })
	second := func(tag string, at func() uint32) func() bool {
		return func() bool {
			ts := s.at(at())
			rel := "first-live"
			if cd := s.c.best(s.x, s.role); cd == nil {
				rel = "first-withdrawn"
			} else if ts == cd.Expiry {
				rel = "first-at-time==expiry"
			} else if ts > cd.Expiry {
				rel = "first-expired"
			}
			rep := s.deleg(s.b, s.x, 1, uint64(h.rng.Range(6, 10)), at(), "b-to-x:"+rel)
			s.count(fmt.Sprintf("second-delegation:%s=%v", rel, rep))
			return true
		}
	}
	now := func() uint32 { return 0 }
	wd := func(id func() string, name string) func() bool {
		return func() bool {
			before := s.holds(s.x)
			rep := s.withdraw(id(), s.x)
			s.count(fmt.Sprintf("withdraw-by-%s=%v", name, rep))
			if before {
				s.count(fmt.Sprintf("x-holds-after-withdraw-by-%s=%v", name, s.holds(s.x)))
			}
			return true
		}
	}
	a := func() string { return s.a }
	b := func() string { return s.b }
	*q = append(*q, func() bool { s.count("variant=" + variant); return false }, second("while-first-live", now))
	switch variant {
	case "b-withdraws,first-runs-out":
		*q = append(*q, wd(b, "refused-second-delegator"))
	case "a-withdraws,b-delegates":
		*q = append(*q, wd(a, "first-delegator"), second("after-withdraw", now), wd(a, "first-delegator-again"))
		if h.rng.Chance(50) {
			*q = append(*q, wd(b, "second-delegator"))
		}
	case "second-at-expiry-instant":
		*q = append(*q, func() bool { return s.timeTo(s.e1 - 1) }, second("at-expiry-instant", func() uint32 { return s.e1 }), wd(a, "first-delegator-after-expiry"))
		if h.rng.Chance(50) {
			*q = append(*q, wd(b, "second-delegator"))
		}
	default:
		*q = append(*q, func() bool { return s.timeTo(s.e1) }, second("after-expiry", func() uint32 { return s.e1 + 1 }),
			func() bool {
				rep := s.deleg(s.a, s.x, 1, uint64(h.rng.Range(12, 20)), 0, "a-to-x:again-while-second-live")
				s.count(fmt.Sprintf("first-delegator-again-while-second-live=%v", rep))
				return true
			}, wd(a, "first-delegator-after-expiry"))
		if h.rng.Chance(50) {
			*q = append(*q, wd(b, "second-delegator"))
		}
	}
	s.runOut(q, func() string { return s.x })
}

// S3: the same delegator delegates again: while its delegation is live (does it extend?), at
// the second it ends, after it ended, after withdrawing it; then withdraws or lets it run out.
func (s *scen) s3(q *[]func() bool, vi int) {
	h := s.h
	variant := []string{"renew-while-live,run-out", "renew-while-live,withdraw", "renew-at-expiry-instant", "renew-after-expiry", "withdraw,renew"}[vi%5]
	s.first(q, func() uint64 { return uint64(h.rng.Range(3, 6)) })
	renew := func(tag string, at func() uint32) func() bool {
		return func() bool {
			rep := s.deleg(s.a, s.x, 1, uint64(h.rng.Range(8, 14)), at(), "a-to-x:"+tag)
			s.count(fmt.Sprintf("%s=%v", tag, rep))
			return true
		}
	}
	wd := func() bool {
		before := s.holds(s.x)
		rep := s.withdraw(s.a, s.x)
		s.count(fmt.Sprintf("withdraw=%v", rep))
		if before {
			s.count(fmt.Sprintf("x-holds-after-withdraw=%v", s.holds(s.x)))
		}
		return true
	}
	*q = append(*q, func() bool { s.count("variant=" + variant); return false })
	switch variant {
	case "renew-while-live,run-out":
		*q = append(*q, renew("renew-while-live", func() uint32 { return 0 }))
		s.runOut(q, func() string { return s.x })
		*q = append(*q, wd) // withdrawing what has run out
		return
	case "renew-while-live,withdraw":
		*q = append(*q, renew("renew-while-live", func() uint32 { return 0 }), wd)
	case "renew-at-expiry-instant":
		*q = append(*q, func() bool { return s.timeTo(s.e1 - 1) }, renew("renew-at-time==expiry", func() uint32 { return s.e1 }))
		if h.rng.Chance(50) {
			*q = append(*q, wd)
		}
	case "renew-after-expiry":
		later := uint32(h.rng.Range(1, 4))
		*q = append(*q, func() bool { return s.timeTo(s.e1 + later - 1) }, renew("renew-after-expiry", func() uint32 { return s.e1 + later }))
		if h.rng.Chance(50) {
			*q = append(*q, wd)
		}
	default:
		*q = append(*q, wd, renew("renew-after-withdraw", func() uint32 { return 0 }))
		if h.rng.Chance(50) {
			*q = append(*q, wd)
		}
	}
	s.runOut(q, func() string { return s.x })
}

// S4: chains.  x holds the role by a's delegation and tries to pass it on to y (levels 0..2)
// while its own delegation is live, after it was withdrawn, after it expired; y must not get
// anything out of it.  Then b delegates to y properly; x and a cannot withdraw that.
func (s *scen) s4(q *[]func() bool, vi int) {
	h := s.h
	variant := []string{"middle-live", "middle-withdrawn", "middle-expires"}[vi%3]
	s.first(q, func() uint64 { return uint64(h.rng.Range(5, 9)) })
	chain := func(tag string) func() bool {
		return func() bool {
			lvl := []uint64{1, 1, 0, 2}[h.rng.Intn(4)]
			e := s.e2
			rep := s.deleg(s.x, s.y, lvl, uint64(h.rng.Range(2, 40)), 0, fmt.Sprintf("x-to-y:%s:level-%d", tag, lvl))
			s.e2 = e
			s.count(fmt.Sprintf("chain:%s=%v", tag, rep))
			s.count(fmt.Sprintf("chain:level-%d=%v", lvl, rep))
			if !s.holds(s.y) {
				s.count("y-holds-nothing-after-chain-attempt")
			}
			return true
		}
	}
	wdY := func(by func() string, name string) func() bool {
		return func() bool {
			before := s.holds(s.y)
			rep := s.h.doWithdraw(s.c, by(), s.y, s.role, s.class(), s.fam+":withdraw-y-by-"+name, s.at(0))
			s.count(fmt.Sprintf("withdraw-y-by-%s=%v", name, rep))
			if before {
				s.count(fmt.Sprintf("y-holds-after-withdraw-by-%s=%v", name, s.holds(s.y)))
			}
			return true
		}
	}
	a := func() string { return s.a }
	b := func() string { return s.b }
	x := func() string { return s.x }
	*q = append(*q, func() bool { s.count("variant=" + variant); return false }, chain("middle-live"))
	switch variant {
	case "middle-withdrawn":
		*q = append(*q, func() bool {
			rep := s.withdraw(s.a, s.x)
			s.count(fmt.Sprintf("withdraw-middle=%v", rep))
			return true
		}, chain("middle-withdrawn"))
	case "middle-expires":
		*q = append(*q, func() bool { return s.timeTo(s.e1 - 1) }, chain("middle-at-time==expiry"), func() bool { return s.timeTo(s.e1 + 1) }, chain("middle-expired"))
	}
	if h.rng.Chance(50) {
		*q = append(*q, wdY(x, "middle"))
	} else {
		*q = append(*q, wdY(a, "head"))
	}
	*q = append(*q, func() bool {
		rep := s.deleg(s.b, s.y, 1, uint64(h.rng.Range(5, 8)), 0, "b-to-y")
		s.count(fmt.Sprintf("proper-delegation-to-y=%v", rep))
		if rep && s.holds(s.y) {
			s.count("y-holds-by-proper-delegation")
		}
		return true
	})
	if h.rng.Chance(50) {
		*q = append(*q, wdY(x, "middle"))
	} else {
		*q = append(*q, wdY(a, "head"))
	}
	if h.rng.Chance(50) {
		*q = append(*q, wdY(b, "delegator"))
	}
	s.runOut(q, func() string { return s.y })
}
