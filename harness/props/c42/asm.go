package main

// Small assemblers (EVM and NeoVM, both with labels) and the contracts of the "phantom then real"
// scenarios: an EVM factory / probe / child family and a NeoVM key-value contract with
// put / delete / append / destroy / migrate operations.

import (
	"encoding/binary"

	ethcom "github.com/ethereum/go-ethereum/common"
	"github.com/ontio/ontology/core/payload"
	"github.com/ontio/ontology/vm/evm"
	"github.com/ontio/ontology/vm/neovm"
	"verifharness/lib/chain"
)

// ---------------------------------------------------------------- EVM

type easm struct {
	code   []byte
	labels map[string]int
	fix    map[int]string
}

func newEasm() *easm { return &easm{labels: map[string]int{}, fix: map[int]string{}} }

func (e *easm) op(ops ...evm.OpCode) *easm {
	for _, o := range ops {
		e.code = append(e.code, byte(o))
	}
	return e
}

// push emits PUSHn of the given bytes (1..32).
func (e *easm) push(b ...byte) *easm {
	if len(b) == 0 || len(b) > 32 {
		panic("easm: push size")
	}
	e.code = append(e.code, byte(evm.PUSH1)+byte(len(b)-1))
	e.code = append(e.code, b...)
	return e
}

// ref pushes the (2-byte) code offset of a label.
func (e *easm) ref(label string) *easm {
	e.code = append(e.code, byte(evm.PUSH2))
	e.fix[len(e.code)] = label
	e.code = append(e.code, 0, 0)
	return e
}

func (e *easm) label(name string) *easm {
	e.labels[name] = len(e.code)
	return e.op(evm.JUMPDEST)
}

func (e *easm) bytes() []byte {
	out := append([]byte{}, e.code...)
	for pos, l := range e.fix {
		t, ok := e.labels[l]
		if !ok {
			panic("easm: unknown label " + l)
		}
		binary.BigEndian.PutUint16(out[pos:], uint16(t))
	}
	return out
}

// evmInit wraps runtime code into init code: prefix (run at creation) then "return runtime".
func evmInit(prefix, runtime []byte) []byte {
	const wrap = 13
	off := len(prefix) + wrap
	e := newEasm()
	e.code = append(e.code, prefix...)
	e.push(byte(len(runtime)>>8), byte(len(runtime))).op(evm.DUP1).push(byte(off>>8), byte(off)).push(0).op(evm.CODECOPY).push(0).op(evm.RETURN)
	if len(e.code) != off {
		panic("evmInit: wrapper size")
	}
	return append(e.bytes(), runtime...)
}

// factoryRuntime: calldata = salt word ‖ init code.  salt==0: CREATE, else CREATE2(salt).  Then the
// factory looks at the child the way Solidity does before/after an external call (EXTCODESIZE,
// EXTCODEHASH, BALANCE, CALL), records the child address in slot 0 and returns it.
func factoryRuntime() []byte {
	e := newEasm()
	e.push(0x20).op(evm.CALLDATASIZE, evm.SUB)             // n
	e.op(evm.DUP1).push(0x20).push(0).op(evm.CALLDATACOPY) // mem[0:n] = init code
	e.push(0).op(evm.CALLDATALOAD)                         // n salt
	e.op(evm.DUP1, evm.ISZERO).ref("create").op(evm.JUMPI) // n salt
	e.op(evm.SWAP1).push(0).push(0).op(evm.CREATE2)        // child
	e.ref("after").op(evm.JUMP)
	e.label("create").op(evm.POP).push(0).push(0).op(evm.CREATE) // child
	e.label("after")
	e.op(evm.DUP1, evm.EXTCODESIZE, evm.POP)
	e.op(evm.DUP1, evm.EXTCODEHASH, evm.POP)
	e.op(evm.DUP1, evm.BALANCE, evm.POP)
	e.push(0).push(0).push(0).push(0).push(0).op(evm.DUP6, evm.GAS, evm.CALL, evm.POP)
	e.op(evm.DUP1).push(0).op(evm.SSTORE)
	e.push(0).op(evm.MSTORE).push(0x20).push(0).op(evm.RETURN)
	return e.bytes()
}

// probeRuntime: calldata = address word ‖ slot-base word.  Persists what block execution sees of
// the address: slot base+0 = EXTCODESIZE+1, +1 = EXTCODEHASH+1, +2 = BALANCE+1, +3 = CALL success+1,
// +4 = RETURNDATASIZE+1, +5 = first word returned + 1.
func probeRuntime() []byte {
	e := newEasm()
	store := func(i byte) {
		e.push(1).op(evm.ADD).push(0x20).op(evm.CALLDATALOAD).push(i).op(evm.ADD, evm.SSTORE)
	}
	e.push(0).op(evm.CALLDATALOAD) // addr
	e.op(evm.DUP1, evm.EXTCODESIZE)
	store(0)
	e.op(evm.DUP1, evm.EXTCODEHASH)
	store(1)
	e.op(evm.DUP1, evm.BALANCE)
	store(2)
	e.push(0x20).push(0).push(0).push(0).push(0).op(evm.DUP6).push(0x01, 0x86, 0xa0).op(evm.CALL)
	store(3)
	e.op(evm.RETURNDATASIZE)
	store(4)
	e.push(0).op(evm.MLOAD)
	store(5)
	e.op(evm.STOP)
	return e.bytes()
}

// childRuntime: empty calldata -> returns storage slot 0; any calldata -> SELFDESTRUCT(caller).
// pad makes the code size (and hash) vary.
func childRuntime(pad []byte) []byte {
	e := newEasm()
	e.op(evm.CALLDATASIZE).ref("die").op(evm.JUMPI)
	e.push(0).op(evm.SLOAD).push(0).op(evm.MSTORE).push(0x20).push(0).op(evm.RETURN)
	e.label("die").op(evm.CALLER, evm.SELFDESTRUCT)
	return append(e.bytes(), pad...)
}

// childInit: sstore(0, val) at creation, then the runtime above.
func childInit(val byte, pad []byte) []byte {
	pre := newEasm().push(val).push(0).op(evm.SSTORE).bytes()
	return evmInit(pre, childRuntime(pad))
}

func word(b []byte) []byte { return ethcom.LeftPadBytes(b, 32) }

// ---------------------------------------------------------------- NeoVM

type nasm struct {
	code   []byte
	labels map[string]int
	fix    map[int]string // position of a jump opcode -> label
}

func newNasm() *nasm { return &nasm{labels: map[string]int{}, fix: map[int]string{}} }

func (n *nasm) raw(b []byte) *nasm { n.code = append(n.code, b...); return n }
func (n *nasm) op(ops ...neovm.OpCode) *nasm {
	for _, o := range ops {
		n.code = append(n.code, byte(o))
	}
	return n
}
func (n *nasm) push(b []byte) *nasm       { return n.raw(chain.NewAsm().Push(b).Bytes()) }
func (n *nasm) pushInt(v int64) *nasm     { return n.raw(chain.NewAsm().PushInt(v).Bytes()) }
func (n *nasm) syscall(name string) *nasm { return n.raw(chain.NewAsm().Syscall(name).Bytes()) }
func (n *nasm) jmp(op neovm.OpCode, label string) *nasm {
	n.fix[len(n.code)] = label
	n.code = append(n.code, byte(op), 0, 0)
	return n
}
func (n *nasm) label(name string) *nasm { n.labels[name] = len(n.code); return n }
func (n *nasm) bytes() []byte {
	out := append([]byte{}, n.code...)
	for pos, l := range n.fix {
		t, ok := n.labels[l]
		if !ok {
			panic("nasm: unknown label " + l)
		}
		binary.LittleEndian.PutUint16(out[pos+1:], uint16(int16(t-pos))) // relative to the jump opcode
	}
	return out
}

const (
	opDel     = 0
	opPut     = 1
	opAppend  = 2 // value' = Storage.Get(key) ‖ value : a read-modify-write of the key
	opDestroy = 3
	opMigrate = 4
)

// pushDeployArgs pushes the seven arguments of Ontology.Contract.Create / Migrate.
func pushDeployArgs(n *nasm, code []byte) *nasm {
	for _, s := range []string{"c42 desc", "c@42", "c42", "1.0", "c42 contract"} {
		n.push([]byte(s))
	}
	return n.pushInt(int64(payload.NEOVM_TYPE)).push(code)
}

// kvgCode is a deployable NeoVM contract called with [value, key, op] (op on top):
// 0 delete, 1 put, 2 append (reads the key), 3 destroy itself, 4 migrate to migrateTo (if given).
func kvgCode(salt []byte, migrateTo []byte) []byte {
	n := newNasm()
	n.push(append([]byte{0xc4, 0x2c}, salt...)).op(neovm.DROP)
	sel := func(v int64, l string) {
		n.op(neovm.DUP).pushInt(v).op(neovm.NUMEQUAL).jmp(neovm.JMPIF, l)
	}
	sel(opDel, "del")
	sel(opPut, "put")
	sel(opAppend, "app")
	sel(opDestroy, "destroy")
	if migrateTo != nil {
		sel(opMigrate, "migrate")
	}
	n.op(neovm.THROW)
	n.label("put").op(neovm.DROP).syscall("System.Storage.GetContext").syscall("System.Storage.Put").op(neovm.RET)
	n.label("del").op(neovm.DROP).syscall("System.Storage.GetContext").syscall("System.Storage.Delete").op(neovm.DROP, neovm.RET)
	// value key -> value key old -> key old value -> key old‖value -> new key ctx
	n.label("app").op(neovm.DROP, neovm.DUP).syscall("System.Storage.GetContext").syscall("System.Storage.Get")
	n.op(neovm.ROT, neovm.CAT, neovm.SWAP).syscall("System.Storage.GetContext").syscall("System.Storage.Put").op(neovm.RET)
	n.label("destroy").op(neovm.DROP, neovm.DROP, neovm.DROP).syscall("System.Contract.Destroy").op(neovm.RET)
	if migrateTo != nil {
		n.label("migrate").op(neovm.DROP, neovm.DROP, neovm.DROP)
		pushDeployArgs(n, migrateTo).syscall("Ontology.Contract.Migrate").op(neovm.DROP, neovm.RET)
	}
	return n.bytes()
}

// kvgInvoke builds the invoke script [value, key, op] APPCALL contract.
func kvgInvoke(n *nasm, contract [20]byte, key, value []byte, op int64) *nasm {
	return n.push(value).push(key).pushInt(op).raw(chain.NewAsm().AppCall(contract).Bytes())
}
