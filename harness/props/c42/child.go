package main

// The isolated reference: a ledger in a SEPARATE PROCESS that receives exactly the blocks ledger A
// commits and never serves a pre-execution.  A reference ledger inside the monitor's own process
// shares every process-wide variable of the code under test with ledger A (package-level caches,
// pools, gas tables …): whatever a pre-execution leaks into such a variable reaches both ledgers and
// the two still agree.  The child process shares nothing but the block bytes.
//
// The exchange is pipelined: the monitor queues every committed block together with ledger A's
// fingerprint and goes on; the answers are compared by a receiver goroutine, so the monitor never
// waits for the child to come up (see referenceBinary).

import (
	"bufio"
	"encoding/binary"
	"encoding/hex"
	"encoding/json"
	"fmt"
	"io"
	"os"
	"os/exec"
	"path/filepath"
	"sync/atomic"

	"github.com/ontio/ontology/common"
	"github.com/ontio/ontology/core/store"
	"github.com/ontio/ontology/core/types"
	"verifharness/lib/chain"
	"verifharness/lib/racelog"
)

const (
	childDirEnv = "C42_REFERENCE_DIR"
	childTagEnv = "C42_REFERENCE_TAG"
)

type refRequest struct {
	Root   string            `json:"root"` // state merkle root ledger A computed for the block
	FP     chain.Fingerprint `json:"fp"`   // ledger A after the block
	Events string            `json:"events"`
	Block  string            `json:"block"`
}

type refReply struct {
	Height  uint32            `json:"height"`
	Skipped bool              `json:"skipped,omitempty"` // an earlier block already diverged
	Err     string            `json:"err,omitempty"`     // the block was rejected
	Diff    string            `json:"diff,omitempty"`    // fingerprint difference after the block
	EvDiff  bool              `json:"ev_diff,omitempty"`
	Events  string            `json:"events,omitempty"`
	Dump    map[string]string `json:"dump,omitempty"` // hex: write set (rejected block) or state dump (fingerprint differs)
}

// childMain serves requests (uint32 length + JSON) on fd 3 and answers with JSON lines on fd 4
// until the request pipe is closed.
func childMain() {
	in := bufio.NewReader(os.NewFile(3, "requests"))
	enc := json.NewEncoder(os.NewFile(4, "replies"))
	w := chain.NewWorld(os.Getenv(childTagEnv), 5)
	c, err := chain.NewSolo(os.Getenv(childDirEnv), w.BK)
	if err != nil {
		enc.Encode(refReply{Err: "open: " + err.Error()})
		os.Exit(1)
	}
	stopped := false
	for {
		var hdr [4]byte
		if _, err := io.ReadFull(in, hdr[:]); err != nil {
			break
		}
		buf := make([]byte, binary.LittleEndian.Uint32(hdr[:]))
		if _, err := io.ReadFull(in, buf); err != nil {
			break
		}
		var req refRequest
		var rep refReply
		if err := json.Unmarshal(buf, &req); err != nil {
			rep.Err = "request: " + err.Error()
			enc.Encode(rep)
			continue
		}
		raw, _ := hex.DecodeString(req.Block)
		b, err := types.BlockFromRawBytes(raw)
		switch {
		case err != nil:
			rep.Err = "decode: " + err.Error()
		case stopped:
			rep.Height, rep.Skipped = b.Header.Height, true
		default:
			rep.Height = b.Header.Height
			root, _ := common.Uint256FromHexString(req.Root)
			if err := c.CommitSync(b, root); err != nil {
				rep.Err = err.Error()
				if res, err := c.Ledger.ExecuteBlock(b); err == nil {
					rep.Dump = hexMap(writeSet(res))
				}
				stopped = true
				break
			}
			if d := req.FP.Diff(c.Fingerprint()); d != "" {
				_, _, dump := c.DumpState()
				rep.Diff, rep.Dump = d, hexMap(dump)
				stopped = true
			} else if ev := eventsJSON(c, b.Header.Height); ev != req.Events {
				rep.EvDiff, rep.Events = true, ev
				stopped = true
			}
		}
		if err := enc.Encode(rep); err != nil {
			break
		}
	}
	c.Close()
	os.Exit(0)
}

func hexMap(m map[string]string) map[string]string {
	out := map[string]string{}
	for k, v := range m {
		out[hex.EncodeToString([]byte(k))] = hex.EncodeToString([]byte(v))
	}
	return out
}

func unhexMap(m map[string]string) map[string]string {
	out := map[string]string{}
	for k, v := range m {
		kb, _ := hex.DecodeString(k)
		vb, _ := hex.DecodeString(v)
		out[string(kb)] = string(vb)
	}
	return out
}

// writeSet returns the state changes of an executed block as a map.
func writeSet(res store.ExecuteResult) map[string]string {
	out := map[string]string{}
	if res.WriteSet != nil {
		res.WriteSet.ForEach(func(k, v []byte) { out[string(k)] = string(v) })
	}
	return out
}

// sent is what the monitor remembers of a block until the isolated reference has answered.
type sent struct {
	height   int
	events   string
	writeSet map[string]string // ledger A's
	dump     map[string]string // ledger A's state after the block
	recent   []string
}

type isolatedRef struct {
	cmd      *exec.Cmd // set by the launcher goroutine before launched is closed
	launched chan struct{}
	sendq    chan []byte
	pend     chan sent
	done     chan struct{}
	diverged int32
	broken   atomic.Value // string: the child failed
}

// referenceBinary is the program the isolated reference runs: this binary, or — when this one is built
// with the race detector, whose start-up alone takes minutes for this code base and buys nothing for a
// single-goroutine reference — the same package built without -race (same tree, tags and module file:
// ./check exports them), placed in the scratch directory.
func referenceBinary(scratch string) (string, error) {
	if !racelog.Enabled {
		return os.Args[0], nil
	}
	home := os.Getenv("VERIF_HOME")
	if home == "" {
		home = "/verif"
	}
	out := filepath.Join(scratch, "reference-bin")
	cmd := exec.Command("go", "build", "-tags", "verif", "-o", out, "./props/c42")
	cmd.Dir = filepath.Join(home, "harness")
	if b, err := cmd.CombinedOutput(); err != nil {
		return "", fmt.Errorf("building the race-free reference binary: %v: %s", err, trunc(string(b), 600))
	}
	return out, nil
}

func startIsolatedRef(scratch, dir, tag string) (*isolatedRef, error) {
	reqR, reqW, err := os.Pipe()
	if err != nil {
		return nil, err
	}
	repR, repW, err := os.Pipe()
	if err != nil {
		return nil, err
	}
	x := &isolatedRef{sendq: make(chan []byte, 8192), pend: make(chan sent, 8192), done: make(chan struct{}), launched: make(chan struct{})}
	go func() { // launcher: the monitor does not wait for the child to come up
		defer close(x.launched)
		defer reqR.Close()
		defer repW.Close()
		bin, err := referenceBinary(scratch)
		if err == nil {
			cmd := exec.Command(bin)
			cmd.Env = append(os.Environ(), childDirEnv+"="+dir, childTagEnv+"="+tag)
			cmd.ExtraFiles = []*os.File{reqR, repW}
			cmd.Stdout, cmd.Stderr = os.Stderr, os.Stderr
			if err = cmd.Start(); err == nil {
				x.cmd = cmd
			}
		}
		if err != nil {
			x.broken.Store(err.Error())
		}
	}()
	go func() { // sender
		for m := range x.sendq {
			if _, err := reqW.Write(m); err != nil {
				break
			}
		}
		reqW.Close()
		for range x.sendq {
		}
	}()
	go func() { // receiver: one answer per queued block, in order
		defer close(x.done)
		defer repR.Close()
		rd := bufio.NewReaderSize(repR, 1<<20)
		for s := range x.pend {
			var rep refReply
			line, err := rd.ReadBytes('\n')
			if err == nil {
				err = json.Unmarshal(line, &rep)
			}
			if err != nil {
				if x.broken.Load() == nil {
					x.broken.Store(fmt.Sprintf("no answer for height %d: %v", s.height, err))
				}
				for range x.pend {
				}
				return
			}
			x.judge(s, rep)
		}
	}()
	return x, nil
}

func (x *isolatedRef) judge(s sent, rep refReply) {
	wit := map[string]interface{}{"height": s.height, "recent_preexecutions": s.recent}
	const pfx = "ledger-with-preexec-diverges-from-isolated-reference:"
	switch {
	case rep.Skipped:
		return
	case rep.Err != "":
		if rep.Dump != nil {
			wit["write_set_diff(reference -> A)"] = chain.DiffDumps(unhexMap(rep.Dump), s.writeSet, 6)
		}
		r.Violation(pfx+"commit", "a ledger in a separate process that never pre-executes rejects the block with A's state root: "+rep.Err, wit)
	case rep.Diff != "":
		wit["state_diff(reference -> A)"] = chain.DiffDumps(unhexMap(rep.Dump), s.dump, 6)
		r.Violation(pfx+rep.Diff, rep.Diff, wit)
	case rep.EvDiff:
		wit["A"], wit["reference"] = trunc(s.events, 1500), trunc(rep.Events, 1500)
		r.Violation(pfx+"event records", "event notifies of the block differ", wit)
	default:
		r.Count("blocks_compared_with_isolated_reference")
		return
	}
	atomic.StoreInt32(&x.diverged, 1)
}

// hasDiverged: an answer received so far reported a divergence (or the child failed).
func (x *isolatedRef) hasDiverged() bool {
	return atomic.LoadInt32(&x.diverged) != 0 || x.broken.Load() != nil
}

// submit queues a block ledger A has committed (expected state root = ledger A's).
func (x *isolatedRef) submit(a *chain.Chain, b *types.Block, resA store.ExecuteResult, fa chain.Fingerprint, recent []string) {
	sink := common.NewZeroCopySink(nil)
	b.Serialization(sink)
	h := b.Header.Height
	ev := eventsJSON(a, h)
	body, err := json.Marshal(refRequest{Root: resA.MerkleRoot.ToHexString(), FP: fa, Events: ev, Block: hex.EncodeToString(sink.Bytes())})
	if err != nil {
		panic(err)
	}
	hdr := make([]byte, 4)
	binary.LittleEndian.PutUint32(hdr, uint32(len(body)))
	_, _, dump := a.DumpState()
	x.pend <- sent{height: int(h), events: ev, writeSet: writeSet(resA), dump: dump, recent: recent}
	x.sendq <- append(hdr, body...)
}

// finish waits for the outstanding answers and ends the child (it closes its ledger first, so its
// directory can be dumped afterwards).  It returns a description of a failure of the child, if any.
func (x *isolatedRef) finish() string {
	close(x.pend)
	<-x.done
	close(x.sendq)
	<-x.launched
	var err error
	if x.cmd != nil {
		err = x.cmd.Wait()
	}
	if b := x.broken.Load(); b != nil {
		return b.(string)
	}
	if err != nil {
		return err.Error()
	}
	return ""
}
