package main

// "Phantom then real" scenarios and hook-placed pre-executions.
//
// A process-wide cache that a pre-execution fills from its throw-away overlay leaves nothing in the
// stores: it only shows when a LATER block asks about the same address / key.  Every scenario here
// therefore couples a pre-execution that WOULD create, change or destroy something addressable (or
// that merely reads a key while the block creating it is being committed) with transactions, mined
// in the following blocks on both ledgers, whose persisted outcome depends on whether that thing
// exists.  The verdict stays the differential one of main.go: ledger A (served the pre-execution) and
// the reference (never pre-executes) must agree after every block on state dump, roots and events.

import (
	"crypto/sha256"
	"fmt"
	"math/big"

	ethcom "github.com/ethereum/go-ethereum/common"
	ethtypes "github.com/ethereum/go-ethereum/core/types"
	"github.com/ethereum/go-ethereum/crypto"
	"github.com/ontio/ontology-crypto/keypair"
	"github.com/ontio/ontology/account"
	"github.com/ontio/ontology/common"
	"github.com/ontio/ontology/core/store/ledgerstore"
	"github.com/ontio/ontology/core/types"
	cutils "github.com/ontio/ontology/core/utils"
	"github.com/ontio/ontology/smartcontract/service/native/ont"
	nutils "github.com/ontio/ontology/smartcontract/service/native/utils"
	"github.com/ontio/ontology/vm/evm"
	"github.com/ontio/ontology/vm/neovm"
	"verifharness/lib/chain"
	"verifharness/lib/vf"
)

// hook points of submitBlock (all before stateStore.CommitTo) at which pre-executions are served
var hookPoints = []string{
	"submit:after-saveBlockToStateStore", // the block's write set is queued in the state batch
	"submit:after-saveBlockToBlockStore",
	"submit:after-blockStore.CommitTo",
	"submit:after-eventStore.CommitTo",
}

// pre is one pre-execution request (or a short list of them) against ledger A.
// run reports whether the request had its intended would-be effect; inHook: the caller is the
// committing goroutine, entry points that wait for the saving lock must not be used.
type pre struct {
	kind string
	run  func(inHook bool) (effective bool, err error)
}

type slot struct {
	txs    []func() []*types.Transaction
	window []*pre
	hook   map[string][]*pre
	after  []*pre
	checks []func()
}

type lab struct {
	tag    string
	w      *chain.World
	a, ref *chain.Chain

	drv      *chain.EthAccount // sender of every mined factory / probe / value call
	drvNonce uint64
	creators []*chain.EthAccount // their nonces advance only by mined top-level creations
	crNonce  []uint64
	factory  ethcom.Address
	probe    ethcom.Address
	kvg      common.Address // key-value contract with put / delete / append

	slots    map[int]*slot
	uniq     int
	slotBase uint64
	recent   []string // the last scheduled pre-executions served by ledger A (for witnesses)
	perKind  map[string]int
}

func (l *lab) recentList() []string { return append([]string{}, l.recent...) }

func newLab(tag string, w *chain.World, a, ref *chain.Chain) *lab {
	l := &lab{tag: tag, w: w, a: a, ref: ref, slots: map[int]*slot{}, slotBase: 16}
	l.drv = chain.DetEthAccount(tag + "/c42-driver")
	for i := 0; i < 2; i++ {
		l.creators = append(l.creators, chain.DetEthAccount(fmt.Sprintf("%s/c42-creator%d", tag, i)))
	}
	l.crNonce = make([]uint64, len(l.creators))
	l.factory = crypto.CreateAddress(l.drv.Addr, 0)
	l.probe = crypto.CreateAddress(l.drv.Addr, 1)
	l.kvg = common.AddressFromVmCode(kvgCode([]byte("base"), nil))
	return l
}

func (l *lab) slot(h int) *slot {
	s := l.slots[h]
	if s == nil {
		s = &slot{hook: map[string][]*pre{}}
		l.slots[h] = s
	}
	return s
}

func (l *lab) addTxs(h int, f func() []*types.Transaction) {
	s := l.slot(h)
	s.txs = append(s.txs, f)
}

func (l *lab) addCheck(h int, f func()) { s := l.slot(h); s.checks = append(s.checks, f) }

func (l *lab) next() int { l.uniq++; return l.uniq }

// mined schedules one transaction for block h and, as coverage only, observes on the in-process reference
// whether it ended the way the scenario intends (want: 1 success, 0 failure inside the block).
func (l *lab) mined(h int, label string, want byte, build func() *types.Transaction) {
	var tx *types.Transaction
	l.addTxs(h, func() []*types.Transaction { tx = build(); return []*types.Transaction{tx} })
	l.addCheck(h, func() {
		ev, err := l.ref.Ledger.GetEventNotifyByTx(tx.Hash())
		if err == nil && ev != nil && ev.State == want {
			r.Count("onchain/" + label + "/as_intended")
		} else {
			r.Count("onchain/" + label + "/not_as_intended")
		}
	})
}

func (l *lab) freshAccount() *account.Account {
	return chain.DetAccount(fmt.Sprintf("%s/c42-fresh-%d", l.tag, l.next()))
}

func (l *lab) freshEth() ethcom.Address {
	h := sha256.Sum256([]byte(fmt.Sprintf("%s/c42-fresh-eth-%d", l.tag, l.next())))
	return ethcom.BytesToAddress(h[:20])
}

func (l *lab) base() []byte {
	l.slotBase += 16
	return word(new(big.Int).SetUint64(l.slotBase).Bytes())
}

// ---------------------------------------------------------------- transactions mined on both ledgers

// fundingTxs (block 1) and deployTxs (block 2) set the stage.
func (l *lab) fundingTxs() []*types.Transaction {
	var txs []*types.Transaction
	for _, e := range append([]*chain.EthAccount{l.drv}, l.creators...) {
		t, err := l.w.TB.TransferTx("ong", l.w.BK, e.OntAddr(), 5000000000000000, 0, 20000)
		if err != nil {
			panic(err)
		}
		txs = append(txs, t)
	}
	txs = append(txs, l.deployTx(kvgCode([]byte("base"), nil)))
	return txs
}

func (l *lab) deployTxs() []*types.Transaction {
	return []*types.Transaction{
		l.evmMined(l.drv, &l.drvNonce, nil, nil, evmInit(nil, factoryRuntime())),
		l.evmMined(l.drv, &l.drvNonce, nil, nil, evmInit(nil, probeRuntime())),
	}
}

const evmGas = 900000

func (l *lab) evmMined(from *chain.EthAccount, nonce *uint64, to *ethcom.Address, value *big.Int, data []byte) *types.Transaction {
	if value == nil {
		value = big.NewInt(0)
	}
	t, err := chain.EvmTx(from, *nonce, to, value, evmGas, 2500, data)
	if err != nil {
		panic(err)
	}
	*nonce++
	return t
}

func (l *lab) drvCall(to ethcom.Address, value *big.Int, data []byte) *types.Transaction {
	return l.evmMined(l.drv, &l.drvNonce, &to, value, data)
}

func (l *lab) probeTx(addr ethcom.Address) *types.Transaction {
	tx := l.drvCall(l.probe, nil, append(word(addr.Bytes()), l.base()...))
	l.addCheck(int(l.ref.Ledger.GetCurrentBlockHeight())+1, func() { // the block being built
		ev, err := l.ref.Ledger.GetEventNotifyByTx(tx.Hash())
		if err == nil && ev != nil && ev.State == 1 {
			r.Count("onchain/evm-probe-call/as_intended")
		} else {
			r.Count("onchain/evm-probe-call/not_as_intended")
		}
	})
	return tx
}

func (l *lab) neoTx(signer *account.Account, code []byte, gasLimit uint64) *types.Transaction {
	mt := l.w.TB.Invoke(0, gasLimit, code)
	if err := chain.Sign(mt, signer); err != nil {
		panic(err)
	}
	return chain.Immutable(mt)
}

func (l *lab) nativeCode(contract common.Address, method string, params []interface{}) []byte {
	code, err := cutils.BuildNativeInvokeCode(contract, 0, method, params)
	if err != nil {
		panic(err)
	}
	return code
}

func (l *lab) deployTx(code []byte) *types.Transaction {
	d, err := l.w.TB.Deploy(0, 60000000, code, "c42")
	if err != nil {
		panic(err)
	}
	chain.Sign(d, l.w.BK)
	return chain.Immutable(d)
}

func (l *lab) kvgTx(signer *account.Account, contract common.Address, key, value []byte, op int64) *types.Transaction {
	return l.neoTx(signer, kvgInvoke(newNasm(), contract, key, value, op).bytes(), 80000000)
}

// recordTx mines `expr`, notifies its result and persists it under key in the kvg contract: what
// block execution read becomes part of the state dump and of the event store.
func (l *lab) recordTx(signer *account.Account, expr []byte, key string) *types.Transaction {
	n := newNasm().raw(expr).op(neovm.DUP).syscall("System.Runtime.Notify").push([]byte(key)).pushInt(opPut)
	n.raw(chain.NewAsm().AppCall(l.kvg).Bytes())
	return l.neoTx(signer, n.bytes(), 200000)
}

func tokenAddr(asset string) common.Address {
	if asset == "ong" {
		return nutils.OngContractAddress
	}
	return nutils.OntContractAddress
}

func (l *lab) balanceOfCode(asset string, who common.Address) []byte {
	return l.nativeCode(tokenAddr(asset), "balanceOf", []interface{}{who[:]})
}

func (l *lab) allowanceCode(asset string, from, to common.Address) []byte {
	return l.nativeCode(tokenAddr(asset), "allowance", []interface{}{&struct{ From, To common.Address }{from, to}})
}

func (l *lab) transferFromTx(asset string, spender *account.Account, from, to common.Address, v uint64) *types.Transaction {
	code := l.nativeCode(tokenAddr(asset), "transferFrom", []interface{}{&ont.TransferFrom{Sender: spender.Address, TransferState: ont.TransferState{From: from, To: to, Value: v}}})
	return l.neoTx(spender, code, 20000)
}

func (l *lab) approveTx(asset string, owner *account.Account, spender common.Address, v uint64) *types.Transaction {
	code := l.nativeCode(tokenAddr(asset), "approve", []interface{}{&ont.TransferState{From: owner.Address, To: spender, Value: v}})
	return l.neoTx(owner, code, 20000)
}

func (l *lab) transferTx(asset string, from *account.Account, to common.Address, v uint64) *types.Transaction {
	t, err := l.w.TB.TransferTx(asset, from, to, v, 0, 20000)
	if err != nil {
		panic(err)
	}
	return t
}

// ---------------------------------------------------------------- pre-execution entry points

var neoEntries = []string{"PreExecuteContract", "PreExecuteContractBatch/atomic=false", "PreExecuteContractBatch/atomic=true"}

// neoPre pre-executes NeoVM transactions through a seeded entry point; effective = all succeeded.
func (l *lab) neoPre(entry int, txs ...*types.Transaction) func(bool) (bool, error) {
	return func(inHook bool) (bool, error) {
		e := entry % len(neoEntries)
		if inHook && e == 2 {
			e = 1 // the atomic batch waits for the saving lock held by the commit that runs the hook
		}
		r.Count("phantom_entry/" + neoEntries[e])
		ok := true
		switch e {
		case 0:
			for _, t := range txs {
				res, err := l.a.Ledger.PreExecuteContract(t)
				if err != nil {
					return false, err
				}
				ok = ok && res.State == 1
			}
		default:
			res, _, err := l.a.Ledger.PreExecuteContractBatch(txs, e == 2)
			if err != nil {
				return false, err
			}
			for _, x := range res {
				ok = ok && x.State == 1
			}
		}
		return ok, nil
	}
}

var evmEntries = []string{"PreExecuteEip155Tx", "TraceEip155Tx", "PreExecuteContract/eip155", "PreExecuteEIP155", "PreExecuteContractBatch/eip155"}

// evmPre pre-executes one EVM message through a seeded entry point.  The signed-transaction entry
// points use the sender's nonce of the committed state (read from the reference ledger, which is at
// the same height as what ledger A serves the request from).  want (optional) is the expected
// return word of the message-style entry points.
func (l *lab) evmPre(entry int, from *chain.EthAccount, to *ethcom.Address, value *big.Int, data []byte, want func() []byte) func(bool) (bool, error) {
	return func(inHook bool) (bool, error) {
		if value == nil {
			value = big.NewInt(0)
		}
		nonce := l.refNonce(from.Addr)
		e := entry % len(evmEntries)
		r.Count("phantom_entry/" + evmEntries[e])
		if e <= 1 {
			msg := ethtypes.NewMessage(from.Addr, to, nonce, value, evmGas, big.NewInt(2500*chain.GWei), data, false)
			var ret []byte
			if e == 0 {
				res, err := l.a.Ledger.PreExecuteEip155Tx(msg)
				if err != nil {
					return false, err
				}
				if res.Err != nil {
					return false, nil
				}
				ret = res.ReturnData
			} else {
				res, err := l.a.Ledger.TraceEip155Tx(msg, evm.NewStructLogger(nil))
				if err != nil {
					return false, err
				}
				if res.Err != nil {
					return false, nil
				}
				ret = res.ReturnData
			}
			if want != nil {
				if string(ret) != string(want()) {
					r.Count("phantom/evm/return_data_differs_from_computed_address")
					return false, nil
				}
				r.Count("phantom/evm/computed_child_address_confirmed")
			}
			return true, nil
		}
		tx, err := chain.EvmTx(from, nonce, to, value, evmGas, 2500, data)
		if err != nil {
			return false, err
		}
		switch e {
		case 2:
			res, err := l.a.Ledger.PreExecuteContract(tx)
			if err != nil {
				return false, err
			}
			return res.State == 1, nil
		case 3:
			eip, _ := tx.GetEIP155Tx()
			h := l.a.Ledger.GetCurrentBlockHeight()
			res, _, err := l.a.Store().PreExecuteEIP155(eip, ledgerstore.Eip155Context{BlockHash: l.a.Ledger.GetBlockHash(h), Height: h, Timestamp: chain.TimeAt(h) + 1})
			if err != nil {
				return false, err
			}
			return res.Err == nil, nil
		default:
			res, _, err := l.a.Ledger.PreExecuteContractBatch([]*types.Transaction{tx}, false)
			if err != nil {
				return false, err
			}
			return len(res) == 1 && res[0].State == 1, nil
		}
	}
}

func (l *lab) refNonce(addr ethcom.Address) uint64 {
	acc, err := l.ref.Ledger.GetEthAccount(addr)
	if err != nil || acc == nil {
		return 0
	}
	return acc.Nonce
}

func (l *lab) refHasCode(addr ethcom.Address) bool {
	acc, err := l.ref.Ledger.GetEthAccount(addr)
	return err == nil && acc != nil && !acc.IsEmptyContract()
}

func (l *lab) refHasContract(addr common.Address) bool {
	c, _ := l.ref.Ledger.GetContractState(addr)
	return c != nil
}

// place schedules the pre-execution of a scenario started at block s: after block s, between
// ExecuteBlock and SubmitBlock of block s+1, or inside the commit of block s+1 — always before
// block s+2 is executed.
func (l *lab) place(s int, rng *vf.RNG, p *pre) {
	switch k := rng.Intn(10); {
	case k < 5:
		sl := l.slot(s)
		sl.after = append(sl.after, p)
	case k < 7:
		sl := l.slot(s + 1)
		sl.window = append(sl.window, p)
	default:
		sl := l.slot(s + 1)
		pt := hookPoints[rng.Intn(len(hookPoints))]
		sl.hook[pt] = append(sl.hook[pt], p)
	}
}

// runPre issues one scheduled pre-execution on ledger A.
func (l *lab) runPre(p *pre, where string, inHook bool) {
	var eff bool
	var err error
	if pn := vf.Catch(func() { eff, err = p.run(inHook) }); pn != nil {
		r.Count("preexec_panicked")
		err = fmt.Errorf("panic: %v", pn)
	}
	switch {
	case err != nil:
		r.Count("phantom/" + p.kind + "/preexec_error")
	case eff:
		r.Count("phantom/" + p.kind + "/preexec_effective")
	default:
		r.Count("phantom/" + p.kind + "/preexec_without_effect")
	}
	l.recent = append(l.recent, fmt.Sprintf("%s @%s after height %d", p.kind, where, l.ref.Ledger.GetCurrentBlockHeight()))
	if len(l.recent) > 24 {
		l.recent = l.recent[len(l.recent)-24:]
	}
	r.Count("phantom_preexec_placed/" + where)
	r.Eval(fmt.Sprintf("phantom/%s/%s/%d", p.kind, where, l.next()))
}

// ---------------------------------------------------------------- scenarios

var scenarioKinds = []string{"evm-factory-create", "evm-toplevel-create", "evm-selfdestruct", "evm-value-to-fresh",
	"neo-contract-create", "neo-contract-destroy", "neo-contract-migrate", "native-fresh-balance", "native-allowance",
	"native-allowance-spent", "ontid-register", "kv-fresh-key", "kv-deleted-key"}

// start instantiates one scenario whose first block is s (not built yet); it occupies s..s+4.
func (l *lab) start(s int, rng *vf.RNG, kind string) {
	r.Count("scenario/" + kind)
	if l.perKind == nil {
		l.perKind = map[string]int{}
	}
	entry := l.perKind[kind] // every kind walks through all entry points
	l.perKind[kind]++
	actor := l.w.Accts[rng.Intn(len(l.w.Accts))]
	other := l.w.Accts[rng.Intn(len(l.w.Accts))]
	id := l.next()
	switch kind {
	case "evm-factory-create":
		// pre-executed: the factory CREATEs / CREATE2s a child and inspects it.  s+2: the probe contract persists
		// EXTCODESIZE / EXTCODEHASH / BALANCE / CALL of the would-be child.  s+3: the child becomes real.  s+4: probed again.
		create2 := rng.Bool()
		init := childInit(byte(rng.Intn(200)+1), rng.Bytes(rng.Intn(40)+1))
		salt := word(nil)
		if create2 {
			salt = word(rng.Bytes(8))
			salt[31] |= 1
		}
		var child ethcom.Address
		compute := func() {
			if create2 {
				child = crypto.CreateAddress2(l.factory, ethcom.BytesToHash(salt), crypto.Keccak256(init))
			} else {
				child = crypto.CreateAddress(l.factory, l.refNonce(l.factory))
			}
		}
		data := append(append([]byte{}, salt...), init...)
		realData := data
		if !create2 { // a mined CREATE by the factory lands on the phantom address when no other creation came first
			realData = append(append([]byte{}, salt...), childInit(byte(rng.Intn(200)+1), rng.Bytes(rng.Intn(40)+41))...)
		}
		run := l.evmPre(entry, l.drv, &l.factory, nil, data, func() []byte { return word(child.Bytes()) })
		l.place(s, rng, &pre{kind, func(h bool) (bool, error) { compute(); return run(h) }})
		l.addTxs(s+2, func() []*types.Transaction { return []*types.Transaction{l.probeTx(child)} })
		l.addCheck(s+2, func() {
			if !l.refHasCode(child) && child != (ethcom.Address{}) {
				r.Count("phantom/" + kind + "/probed_while_absent_on_chain")
			}
		})
		l.addTxs(s+3, func() []*types.Transaction { return []*types.Transaction{l.drvCall(l.factory, nil, realData)} })
		l.addTxs(s+4, func() []*types.Transaction { return []*types.Transaction{l.probeTx(child)} })
		l.addCheck(s+4, func() {
			if l.refHasCode(child) {
				r.Count("phantom/" + kind + "/probed_after_it_became_real")
			}
		})
	case "evm-toplevel-create":
		ci := rng.Intn(len(l.creators))
		c := l.creators[ci]
		init := childInit(byte(rng.Intn(200)+1), rng.Bytes(rng.Intn(40)+1))
		var child ethcom.Address
		run := l.evmPre(entry, c, nil, nil, init, nil)
		l.place(s, rng, &pre{kind, func(h bool) (bool, error) {
			child = crypto.CreateAddress(c.Addr, l.refNonce(c.Addr))
			return run(h)
		}})
		l.addTxs(s+2, func() []*types.Transaction { return []*types.Transaction{l.probeTx(child)} })
		l.addCheck(s+2, func() {
			if !l.refHasCode(child) && child != (ethcom.Address{}) {
				r.Count("phantom/" + kind + "/probed_while_absent_on_chain")
			}
		})
		var realChild ethcom.Address
		realInit := childInit(byte(rng.Intn(200)+1), rng.Bytes(rng.Intn(40)+41))
		l.addTxs(s+3, func() []*types.Transaction {
			realChild = crypto.CreateAddress(c.Addr, l.crNonce[ci])
			return []*types.Transaction{l.evmMined(c, &l.crNonce[ci], nil, nil, realInit)}
		})
		l.addTxs(s+4, func() []*types.Transaction { return []*types.Transaction{l.probeTx(child), l.probeTx(realChild)} })
		l.addCheck(s+4, func() {
			if l.refHasCode(child) {
				r.Count("phantom/" + kind + "/probed_after_it_became_real")
			}
		})
	case "evm-selfdestruct":
		// reverse order: the child is real (block s), a pre-execution destroys it, block s+2 reads it
		init := childInit(byte(rng.Intn(200)+1), rng.Bytes(rng.Intn(40)+1))
		salt := word(append([]byte{0x5d}, rng.Bytes(8)...))
		child := crypto.CreateAddress2(l.factory, ethcom.BytesToHash(salt), crypto.Keccak256(init))
		l.addTxs(s, func() []*types.Transaction {
			return []*types.Transaction{l.drvCall(l.factory, nil, append(append([]byte{}, salt...), init...))}
		})
		l.place(s, rng, &pre{kind, l.evmPre(entry, l.drv, &child, nil, []byte{1}, nil)})
		l.addTxs(s+2, func() []*types.Transaction { return []*types.Transaction{l.probeTx(child)} })
		l.addCheck(s+2, func() {
			if l.refHasCode(child) {
				r.Count("phantom/" + kind + "/probed_while_still_on_chain")
			}
		})
		l.addTxs(s+3, func() []*types.Transaction { return []*types.Transaction{l.drvCall(child, nil, []byte{1})} })
		l.addTxs(s+4, func() []*types.Transaction { return []*types.Transaction{l.probeTx(child)} })
	case "evm-value-to-fresh":
		x := l.freshEth()
		v := big.NewInt(int64(rng.Intn(1000)+1) * chain.GWei)
		l.place(s, rng, &pre{kind, l.evmPre(entry, l.drv, &x, v, nil, nil)})
		l.addTxs(s+2, func() []*types.Transaction {
			return []*types.Transaction{l.probeTx(x), l.drvCall(x, big.NewInt(7*chain.GWei), nil), l.recordTx(actor, l.balanceOfCode("ong", common.Address(x)), fmt.Sprintf("rec%d", id))}
		})
		l.addCheck(s+2, func() { r.Count("phantom/" + kind + "/probed_while_absent_on_chain") })
		l.addTxs(s+3, func() []*types.Transaction {
			return []*types.Transaction{l.drvCall(x, big.NewInt(5*chain.GWei), nil), l.probeTx(x)}
		})
	case "neo-contract-create":
		// pre-executed: a script deploys P through Ontology.Contract.Create and uses it.  s+2: a mined transaction calls P
		// (P is not on chain).  s+3: P is really deployed (Deploy transaction or the same script).  s+4: called again.
		p := kvgCode([]byte(fmt.Sprintf("p%d", id)), nil)
		pa := common.AddressFromVmCode(p)
		key := []byte(fmt.Sprintf("ck%d", id))
		script := func(twice bool) []byte {
			n := newNasm()
			pushDeployArgs(n, p).syscall("Ontology.Contract.Create").op(neovm.DROP)
			kvgInvoke(n, pa, key, []byte("pre"), opPut)
			if twice {
				pushDeployArgs(n, p).syscall("Ontology.Contract.Create").op(neovm.DROP)
			}
			return n.bytes()
		}
		l.place(s, rng, &pre{kind, l.neoPre(entry, l.neoTx(actor, script(rng.Bool()), 200000000))})
		l.mined(s+2, kind+"/call-of-undeployed-contract-fails", 0, func() *types.Transaction { return l.kvgTx(other, pa, key, []byte("chain"), opAppend) })
		l.addCheck(s+2, func() {
			if !l.refHasContract(pa) {
				r.Count("phantom/" + kind + "/probed_while_absent_on_chain")
			}
		})
		byScript := rng.Bool()
		l.addTxs(s+3, func() []*types.Transaction {
			if byScript {
				return []*types.Transaction{l.neoTx(actor, script(false), 200000000)}
			}
			return []*types.Transaction{l.deployTx(p)}
		})
		l.mined(s+4, kind+"/call-of-deployed-contract-succeeds", 1, func() *types.Transaction { return l.kvgTx(other, pa, key, []byte("real"), opAppend) })
		l.addCheck(s+4, func() {
			if l.refHasContract(pa) {
				r.Count("phantom/" + kind + "/probed_after_it_became_real")
			}
		})
	case "neo-contract-destroy":
		d := kvgCode([]byte(fmt.Sprintf("d%d", id)), nil)
		da := common.AddressFromVmCode(d)
		key := []byte(fmt.Sprintf("dk%d", id))
		l.addTxs(s, func() []*types.Transaction {
			return []*types.Transaction{l.deployTx(d), l.kvgTx(actor, da, key, []byte("v0"), opPut)}
		})
		l.place(s, rng, &pre{kind, l.neoPre(entry, l.kvgTx(actor, da, nil, nil, opDestroy))})
		l.mined(s+2, kind+"/call-of-live-contract-succeeds", 1, func() *types.Transaction { return l.kvgTx(other, da, key, []byte("+chain"), opAppend) })
		l.addCheck(s+2, func() {
			if l.refHasContract(da) {
				r.Count("phantom/" + kind + "/probed_while_still_on_chain")
			}
		})
		l.mined(s+3, kind+"/destroy-succeeds", 1, func() *types.Transaction { return l.kvgTx(actor, da, nil, nil, opDestroy) })
		l.mined(s+4, kind+"/call-of-destroyed-contract-fails", 0, func() *types.Transaction { return l.kvgTx(other, da, key, []byte("+gone"), opAppend) })
		l.addTxs(s+4, func() []*types.Transaction { return []*types.Transaction{l.deployTx(d)} })
	case "neo-contract-migrate":
		y := kvgCode([]byte(fmt.Sprintf("y%d", id)), nil)
		ya := common.AddressFromVmCode(y)
		m := kvgCode([]byte(fmt.Sprintf("m%d", id)), y)
		ma := common.AddressFromVmCode(m)
		key := []byte(fmt.Sprintf("mk%d", id))
		l.addTxs(s, func() []*types.Transaction {
			return []*types.Transaction{l.deployTx(m), l.kvgTx(actor, ma, key, []byte("v0"), opPut)}
		})
		l.place(s, rng, &pre{kind, l.neoPre(entry, l.kvgTx(actor, ma, nil, nil, opMigrate))})
		l.mined(s+2, kind+"/call-of-migration-target-fails", 0, func() *types.Transaction { return l.kvgTx(other, ya, key, []byte("+y"), opAppend) })
		l.mined(s+2, kind+"/call-of-unmigrated-contract-succeeds", 1, func() *types.Transaction { return l.kvgTx(other, ma, key, []byte("+m"), opAppend) })
		l.addCheck(s+2, func() {
			if l.refHasContract(ma) && !l.refHasContract(ya) {
				r.Count("phantom/" + kind + "/probed_while_absent_on_chain")
			}
		})
		l.mined(s+3, kind+"/migrate-succeeds", 1, func() *types.Transaction { return l.kvgTx(actor, ma, nil, nil, opMigrate) })
		l.mined(s+4, kind+"/call-of-migration-target-succeeds", 1, func() *types.Transaction { return l.kvgTx(other, ya, key, []byte("+y2"), opAppend) })
		l.mined(s+4, kind+"/call-of-migrated-contract-fails", 0, func() *types.Transaction { return l.kvgTx(other, ma, key, []byte("+m2"), opAppend) })
		l.addCheck(s+4, func() {
			if !l.refHasContract(ma) && l.refHasContract(ya) {
				r.Count("phantom/" + kind + "/probed_after_it_became_real")
			}
		})
	case "native-fresh-balance":
		asset := []string{"ont", "ong"}[rng.Intn(2)]
		x := l.freshAccount()
		l.place(s, rng, &pre{kind, l.neoPre(entry, l.transferTx(asset, actor, x.Address, uint64(rng.Intn(900)+100)))})
		l.mined(s+2, kind+"/balance-recorded", 1, func() *types.Transaction {
			return l.recordTx(other, l.balanceOfCode(asset, x.Address), fmt.Sprintf("bal%d", id))
		})
		l.mined(s+2, kind+"/spending-from-empty-account-fails", 0, func() *types.Transaction { return l.transferTx(asset, x, other.Address, 1) })
		l.mined(s+2, kind+"/first-real-credit-succeeds", 1, func() *types.Transaction { return l.transferTx(asset, other, x.Address, 50) })
		l.addCheck(s+2, func() { r.Count("phantom/" + kind + "/probed_while_absent_on_chain") })
		l.addTxs(s+3, func() []*types.Transaction {
			return []*types.Transaction{l.transferTx(asset, x, other.Address, 20), l.recordTx(other, l.balanceOfCode(asset, x.Address), fmt.Sprintf("bal%d'", id))}
		})
	case "native-allowance":
		asset := []string{"ont", "ong"}[rng.Intn(2)]
		x := l.freshAccount()
		l.place(s, rng, &pre{kind, l.neoPre(entry, l.approveTx(asset, actor, x.Address, uint64(rng.Intn(900)+100)))})
		l.mined(s+2, kind+"/allowance-recorded", 1, func() *types.Transaction {
			return l.recordTx(other, l.allowanceCode(asset, actor.Address, x.Address), fmt.Sprintf("alw%d", id))
		})
		l.mined(s+2, kind+"/transferFrom-without-allowance-fails", 0, func() *types.Transaction { return l.transferFromTx(asset, x, actor.Address, x.Address, 3) })
		l.addCheck(s+2, func() { r.Count("phantom/" + kind + "/probed_while_absent_on_chain") })
		l.addTxs(s+3, func() []*types.Transaction { return []*types.Transaction{l.approveTx(asset, actor, x.Address, 40)} })
		l.mined(s+4, kind+"/transferFrom-with-allowance-succeeds", 1, func() *types.Transaction { return l.transferFromTx(asset, x, actor.Address, x.Address, 3) })
		l.addTxs(s+4, func() []*types.Transaction {
			return []*types.Transaction{l.recordTx(other, l.allowanceCode(asset, actor.Address, x.Address), fmt.Sprintf("alw%d'", id))}
		})
	case "native-allowance-spent":
		// reverse order: a real allowance, a pre-execution spends all of it, a mined transferFrom needs it
		asset := []string{"ont", "ong"}[rng.Intn(2)]
		x := l.freshAccount()
		l.addTxs(s, func() []*types.Transaction { return []*types.Transaction{l.approveTx(asset, actor, x.Address, 30)} })
		l.place(s, rng, &pre{kind, l.neoPre(entry, l.transferFromTx(asset, x, actor.Address, x.Address, 30))})
		l.mined(s+2, kind+"/transferFrom-of-unspent-allowance-succeeds", 1, func() *types.Transaction { return l.transferFromTx(asset, x, actor.Address, x.Address, 25) })
		l.addTxs(s+2, func() []*types.Transaction {
			return []*types.Transaction{l.recordTx(other, l.allowanceCode(asset, actor.Address, x.Address), fmt.Sprintf("alw%d", id))}
		})
		l.addCheck(s+2, func() { r.Count("phantom/" + kind + "/probed_while_still_on_chain") })
	case "ontid-register":
		x := l.freshAccount()
		oid, err := account.CreateID(rng.Bytes(32))
		if err != nil {
			panic(err)
		}
		reg := func() *types.Transaction {
			code := l.nativeCode(nutils.OntIDContractAddress, "regIDWithPublicKey", []interface{}{&struct{ ID, Pub []byte }{[]byte(oid), keypair.SerializePublicKey(x.PublicKey)}})
			return l.neoTx(x, code, 20000000)
		}
		l.place(s, rng, &pre{kind, l.neoPre(entry, reg())})
		l.mined(s+2, kind+"/first-real-registration-succeeds", 1, reg)
		l.addCheck(s+2, func() { r.Count("phantom/" + kind + "/probed_while_absent_on_chain") })
		l.mined(s+4, kind+"/second-registration-fails", 0, reg)
	case "kv-fresh-key":
		key := []byte(fmt.Sprintf("fk%d", id))
		l.place(s, rng, &pre{kind, l.neoPre(entry, l.kvgTx(actor, l.kvg, key, []byte("phantom"), opPut))})
		l.mined(s+2, kind+"/append-to-absent-key-succeeds", 1, func() *types.Transaction { return l.kvgTx(other, l.kvg, key, []byte("a"), opAppend) })
		l.addCheck(s+2, func() { r.Count("phantom/" + kind + "/probed_while_absent_on_chain") })
		l.addTxs(s+3, func() []*types.Transaction {
			return []*types.Transaction{l.kvgTx(other, l.kvg, key, []byte("b"), opAppend)}
		})
	case "kv-deleted-key":
		key := []byte(fmt.Sprintf("xk%d", id))
		l.addTxs(s, func() []*types.Transaction {
			return []*types.Transaction{l.kvgTx(actor, l.kvg, key, []byte("v0"), opPut)}
		})
		l.place(s, rng, &pre{kind, l.neoPre(entry, l.kvgTx(actor, l.kvg, key, nil, opDel))})
		l.addTxs(s+2, func() []*types.Transaction {
			return []*types.Transaction{l.kvgTx(other, l.kvg, key, []byte("+a"), opAppend)}
		})
		l.addCheck(s+2, func() { r.Count("phantom/" + kind + "/probed_while_still_on_chain") })
	default:
		panic("unknown scenario " + kind)
	}
}

// startHook: block s creates fresh keys (balances of fresh recipients, a fresh storage key, a fresh
// allowance, a fresh EVM account and a fresh EVM contract); WHILE ledger A commits that block, at one
// hook point of submitBlock, pre-executions read exactly those keys; blocks s+1 and s+2 read-modify-write
// them on both ledgers.
func (l *lab) startHook(s int, rng *vf.RNG) {
	pt := hookPoints[0]
	if rng.Chance(40) {
		pt = hookPoints[rng.Intn(len(hookPoints))]
	}
	r.Count("hook_scenario/" + pt)
	id := l.next()
	actor := l.w.Accts[rng.Intn(len(l.w.Accts))]
	other := l.w.Accts[rng.Intn(len(l.w.Accts))]
	xOng, xOnt, xAlw := l.freshAccount(), l.freshAccount(), l.freshAccount()
	xEth := l.freshEth()
	key := []byte(fmt.Sprintf("hk%d", id))
	init := childInit(byte(rng.Intn(200)+1), rng.Bytes(rng.Intn(40)+1))
	salt := word(append([]byte{0x4b}, rng.Bytes(8)...))
	child := crypto.CreateAddress2(l.factory, ethcom.BytesToHash(salt), crypto.Keccak256(init))
	e := rng.Intn(30)

	l.addTxs(s, func() []*types.Transaction {
		return []*types.Transaction{
			l.transferTx("ong", actor, xOng.Address, 1000),
			l.transferTx("ont", actor, xOnt.Address, 1000),
			l.approveTx("ont", actor, xAlw.Address, 500),
			l.kvgTx(actor, l.kvg, key, []byte("v0"), opPut),
			l.drvCall(xEth, big.NewInt(1000*chain.GWei), nil),
			l.drvCall(l.factory, nil, append(append([]byte{}, salt...), init...)),
		}
	})
	sl := l.slot(s)
	add := func(kind string, run func(bool) (bool, error)) {
		sl.hook[pt] = append(sl.hook[pt], &pre{"hook-read/" + kind, run})
	}
	// pure reads …
	add("balanceOf", l.neoPre(e, l.neoTx(other, l.balanceOfCode("ong", xOng.Address), 20000), l.neoTx(other, l.balanceOfCode("ont", xOnt.Address), 20000)))
	add("allowance", l.neoPre(e+1, l.neoTx(other, l.allowanceCode("ont", actor.Address, xAlw.Address), 20000)))
	add("evm-probe", l.evmPre(e, l.drv, &l.probe, nil, append(word(xEth.Bytes()), word([]byte{1})...), nil))
	add("evm-probe-child", l.evmPre(e+1, l.drv, &l.probe, nil, append(word(child.Bytes()), word([]byte{1})...), nil))
	// … and would-be writers that read the same keys first
	add("storage-get", l.neoPre(e+2, l.kvgTx(other, l.kvg, key, []byte("x"), opAppend)))
	add("transfer-to-fresh", l.neoPre(e+3, l.transferTx("ong", other, xOng.Address, 5), l.transferTx("ont", other, xOnt.Address, 5)))
	add("transferFrom", l.neoPre(e+4, l.transferFromTx("ont", xAlw, actor.Address, xAlw.Address, 1)))
	add("evm-value", l.evmPre(e+2, l.drv, &xEth, big.NewInt(3*chain.GWei), nil, nil))

	for i, amt := range []uint64{234, 17} {
		amt, i := amt, i
		l.addTxs(s+1+i, func() []*types.Transaction {
			return []*types.Transaction{
				l.transferTx("ong", other, xOng.Address, amt),
				l.transferTx("ont", other, xOnt.Address, amt),
				l.transferTx("ong", xOng, other.Address, 1000), // needs the balance created by block s
				l.transferFromTx("ont", xAlw, actor.Address, xAlw.Address, 200),
				l.kvgTx(other, l.kvg, key, []byte{'+', byte('a' + i)}, opAppend),
				l.drvCall(xEth, big.NewInt(int64(amt)*chain.GWei), nil),
				l.probeTx(xEth),
				l.probeTx(child),
				l.recordTx(other, l.balanceOfCode("ont", xOnt.Address), fmt.Sprintf("hb%d.%d", id, i)),
			}
		})
	}
	l.addCheck(s+1, func() { r.Count("hook_scenario_keys_read_modify_written") })
	l.mined(s+1, "hook/transferFrom-of-the-allowance-created-during-the-hook-block-succeeds", 1, func() *types.Transaction {
		return l.transferFromTx("ont", xAlw, actor.Address, xAlw.Address, 7)
	})
}
