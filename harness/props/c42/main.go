// C42 — Pre-execution never changes persisted state.
// Fingerprint monitor: every read-only entry point is driven with transactions that WOULD
// write; the ledger's observable state and (at batch boundaries) a byte-level dump of every
// on-disk store must be unchanged, a probe block must execute identically, and the ledger
// must afterwards evolve exactly like a reference ledger that never saw a pre-execution — one in this
// process and one in a separate process (child.go) that shares no process-wide state with the ledger
// under test.  lab.go adds the "phantom then real" scenarios and the hook-placed pre-executions that make
// the lock-step differential sensitive to in-memory channels which leave the stores untouched.
package main

import (
	"crypto/sha256"
	"encoding/hex"
	"encoding/json"
	"fmt"
	"math/big"
	"os"
	"path/filepath"
	"sync"

	ethcom "github.com/ethereum/go-ethereum/common"
	ethtypes "github.com/ethereum/go-ethereum/core/types"
	"github.com/ontio/ontology/common"
	"github.com/ontio/ontology/core/store"
	"github.com/ontio/ontology/core/store/ledgerstore"
	"github.com/ontio/ontology/core/types"
	"github.com/ontio/ontology/smartcontract/service/native/ont"
	nutils "github.com/ontio/ontology/smartcontract/service/native/utils"
	"github.com/ontio/ontology/vm/evm"
	"github.com/ontio/ontology/vm/neovm"
	"verifharness/lib/chain"
	"verifharness/lib/racelog"
	"verifharness/lib/vf"
)

var r *vf.Run

// diskDump hashes every persistent store of a ledger directory (on a copy, the stores are open).
func diskDump(dir, tmp string) map[string]string {
	out := map[string]string{}
	if err := chain.CopyDir(dir, tmp); err != nil {
		panic(err)
	}
	defer os.RemoveAll(tmp)
	for _, sub := range []string{ledgerstore.DBDirBlock, ledgerstore.DBDirState, ledgerstore.DBDirEvent} {
		h, n, err := chain.DumpLevelDB(filepath.Join(tmp, sub))
		out[sub] = fmt.Sprintf("%s/%d/%v", h, n, err)
	}
	if b, err := os.ReadFile(filepath.Join(tmp, ledgerstore.MerkleTreeStorePath)); err == nil {
		s := sha256.Sum256(b)
		out["merkle_tree.db"] = hex.EncodeToString(s[:])
	}
	// any other store directory (cross chain msgs, bloom index …)
	ents, _ := os.ReadDir(tmp)
	for _, e := range ents {
		if _, ok := out[e.Name()]; ok || !e.IsDir() {
			continue
		}
		h, n, err := chain.DumpLevelDB(filepath.Join(tmp, e.Name()))
		out[e.Name()] = fmt.Sprintf("%s/%d/%v", h, n, err)
	}
	return out
}

func diffDisk(a, b map[string]string) string {
	for k, v := range a {
		if b[k] != v {
			return k
		}
	}
	for k := range b {
		if _, ok := a[k]; !ok {
			return k
		}
	}
	return ""
}

type probeRes struct{ hash, root, gas string }

func probe(c *chain.Chain, b *types.Block) probeRes {
	res, err := c.Ledger.ExecuteBlock(b)
	if err != nil {
		return probeRes{hash: "err:" + err.Error()}
	}
	g := ""
	for _, n := range res.Notify {
		g += fmt.Sprintf("%d/%d;", n.State, n.GasConsumed)
	}
	return probeRes{res.Hash.ToHexString(), res.MerkleRoot.ToHexString(), g}
}

type preexec struct {
	kind string
	run  func(c *chain.Chain) error
}

func destroyContractCode() []byte {
	return chain.NewAsm().Push([]byte{0xd5, 0x7a}).Op(neovm.DROP).Syscall("System.Contract.Destroy").Op(neovm.RET).Bytes()
}

// genPre builds one write-intending pre-execution request.
func genPre(w *chain.World, rng *vf.RNG, dz common.Address, evmNonce []uint64) preexec {
	from := w.Accts[rng.Intn(len(w.Accts))]
	to := w.Accts[rng.Intn(len(w.Accts))]
	mkTx := func() (*types.Transaction, string) {
		switch rng.Intn(8) {
		case 0:
			t, _ := w.TB.TransferTx("ont", from, to.Address, uint64(rng.Intn(40)+1), 0, 20000)
			return t, "ont-transfer"
		case 1:
			t, _ := w.TB.TransferTx("ong", from, to.Address, uint64(rng.Intn(4000)+1), 2500, 20000)
			return t, "ong-transfer-with-fee"
		case 2:
			mt := w.TB.Invoke(0, 30000, chain.KVInvoke(w.KV, []byte(fmt.Sprintf("pre%d", rng.Intn(5))), rng.Bytes(6), true))
			chain.Sign(mt, from)
			return chain.Immutable(mt), "storage-put"
		case 3:
			mt := w.TB.Invoke(0, 30000, chain.KVInvoke(w.KV, []byte("k0"), nil, false))
			chain.Sign(mt, from)
			return chain.Immutable(mt), "storage-delete"
		case 4:
			mt, _ := w.TB.Native(0, 20000, nutils.OntContractAddress, "approve", []interface{}{&ont.TransferState{From: from.Address, To: to.Address, Value: uint64(rng.Intn(100) + 1)}})
			chain.Sign(mt, from)
			return chain.Immutable(mt), "approve"
		case 5:
			d, _ := w.TB.Deploy(0, 30000000, chain.KVContractCode(byte(100+rng.Intn(100))), "pre-deploy")
			chain.Sign(d, from)
			return chain.Immutable(d), "deploy"
		case 6:
			mt := w.TB.Invoke(0, 30000, chain.NewAsm().AppCall(dz).Bytes())
			chain.Sign(mt, from)
			return chain.Immutable(mt), "contract-destroy"
		default:
			code := chain.NewAsm().Push([]byte("evt")).Syscall("System.Runtime.Notify").Push(rng.Bytes(4)).Push([]byte("kz")).PushBool(true).AppCall(w.KV).Bytes()
			mt := w.TB.Invoke(0, 30000, code)
			chain.Sign(mt, from)
			return chain.Immutable(mt), "notify+put"
		}
	}
	ei := rng.Intn(len(w.Eth))
	dst := w.Eth[(ei+1)%len(w.Eth)].Addr
	initcode := []byte{0x60, 0x2a, 0x60, 0x00, 0x55, 0x60, 0x00, 0x60, 0x00, 0xa0, 0x60, 0x00, 0x60, 0x00, 0xf3}
	switch rng.Intn(10) {
	case 0, 1, 2, 3:
		tx, kind := mkTx()
		return preexec{"PreExecuteContract/" + kind, func(c *chain.Chain) error { _, err := c.Ledger.PreExecuteContract(tx); return err }}
	case 4:
		var txs []*types.Transaction
		for i := 0; i < 3; i++ {
			t, _ := mkTx()
			txs = append(txs, t)
		}
		atomic := rng.Bool()
		return preexec{fmt.Sprintf("PreExecuteContractBatch/atomic=%v", atomic), func(c *chain.Chain) error { _, _, err := c.Ledger.PreExecuteContractBatch(txs, atomic); return err }}
	case 5:
		tx, err := chain.EvmTx(w.Eth[ei], evmNonce[ei], &dst, big.NewInt(12345*chain.GWei), 30000, 2500, nil)
		if err != nil {
			panic(err)
		}
		return preexec{"PreExecuteContract/eip155-transfer", func(c *chain.Chain) error { _, err := c.Ledger.PreExecuteContract(tx); return err }}
	case 6:
		tx, err := chain.EvmTx(w.Eth[ei], evmNonce[ei], nil, big.NewInt(0), 200000, 2500, initcode)
		if err != nil {
			panic(err)
		}
		return preexec{"PreExecuteContract/eip155-create+sstore+log", func(c *chain.Chain) error { _, err := c.Ledger.PreExecuteContract(tx); return err }}
	case 7:
		tx, err := chain.EvmTx(w.Eth[ei], evmNonce[ei], nil, big.NewInt(0), 200000, 2500, initcode)
		if err != nil {
			panic(err)
		}
		eip, _ := tx.GetEIP155Tx()
		return preexec{"PreExecuteEIP155", func(c *chain.Chain) error {
			h := c.Ledger.GetCurrentBlockHeight()
			_, _, err := c.Store().PreExecuteEIP155(eip, ledgerstore.Eip155Context{BlockHash: c.Ledger.GetBlockHash(h), Height: h, Timestamp: chain.TimeAt(h) + 1})
			return err
		}}
	case 8:
		msg := ethtypes.NewMessage(w.Eth[ei].Addr, &dst, evmNonce[ei], big.NewInt(777*chain.GWei), 50000, big.NewInt(2500*chain.GWei), nil, false)
		return preexec{"PreExecuteEip155Tx/transfer", func(c *chain.Chain) error { _, err := c.Ledger.PreExecuteEip155Tx(msg); return err }}
	default:
		var to *ethcom.Address
		msg := ethtypes.NewMessage(w.Eth[ei].Addr, to, evmNonce[ei], big.NewInt(0), 300000, big.NewInt(2500*chain.GWei), initcode, false)
		return preexec{"TraceEip155Tx/create+sstore+log", func(c *chain.Chain) error {
			_, err := c.Ledger.TraceEip155Tx(msg, evm.NewStructLogger(nil))
			return err
		}}
	}
}

func main() {
	if os.Getenv(childDirEnv) != "" {
		childMain() // the isolated reference ledger (child.go); never returns
	}
	r = vf.NewRun("C42", "exploration",
		"a populated solo ledger A; (1) seeded pre-execution requests through PreExecuteContract, PreExecuteContractBatch(atomic=t/f), PreExecuteEIP155, PreExecuteEip155Tx, TraceEip155Tx, each carrying a transaction that would write (token transfer with fee, storage put/delete, approve, deploy, contract destroy, notify, EVM transfer / create+SSTORE+LOG); after every request the API-level fingerprint, per batch the byte dump of every on-disk store and a probe block's execution are compared. (2) A, an in-process reference and a reference ledger in a SEPARATE PROCESS (shares no process-wide state with A) that never see a pre-execution commit the same further blocks and must agree after every block on state dump, merkle roots and event records. (3) 'phantom then real' scenarios: a pre-execution that would create / change / destroy something addressable (EVM CREATE, CREATE2 and top-level creation with the child address computed; SELFDESTRUCT of a real child; value to a fresh EVM account; Ontology.Contract.Create, Destroy, Migrate; ONT/ONG to a fresh account; approve / spent allowance; ONT ID registration; storage put / delete) placed between blocks, between ExecuteBlock and SubmitBlock, or inside submitBlock through the VerifCrashPoint hook, followed in the next blocks by mined transactions whose persisted outcome depends on that thing (EXTCODESIZE/EXTCODEHASH/BALANCE/CALL stored by a probe contract, APPCALL, Storage.Get+Put, balanceOf/allowance recorded in storage and notified, transferFrom, re-registration, redeploy), then the real creation and a second probe. (4) hook-placed reads: while A commits a block that creates fresh keys (balances, allowance, storage key, EVM account, EVM contract) pre-executions read exactly those keys at a seeded point of submitBlock before stateStore.CommitTo; the next two blocks read-modify-write them. distinct by (entry point/kind, placement, height, request index)")
	scratch := vf.Scratch("c42")
	defer os.RemoveAll(scratch)
	rng := vf.NewRNG(vf.Seed())
	tag := fmt.Sprintf("c42-%d", vf.Seed())
	w := chain.NewWorld(tag, 5)
	wr := chain.NewWorld(tag, 5) // same actors, independent builder for the reference ledger
	dirA, dirR := filepath.Join(scratch, "A"), filepath.Join(scratch, "R")
	a, err := chain.NewSolo(dirA, w.BK)
	if err != nil {
		panic(err)
	}
	ref, err := chain.NewSolo(dirR, wr.BK)
	if err != nil {
		panic(err)
	}
	// a second reference in a separate process: immune to process-wide state shared by A and ref
	dirX := filepath.Join(scratch, "X")
	xr, err := startIsolatedRef(scratch, dirX, tag)
	if err != nil {
		panic(err)
	}
	dzCode := destroyContractCode()
	dz := common.AddressFromVmCode(dzCode)
	evmNonce := make([]uint64, len(w.Eth))
	winN := 0
	lb := newLab(tag, w, a, ref)
	diverged := false // after the first divergence the two ledgers no longer accept the same blocks: stop
	commitBoth := func(h int) {
		if xr.hasDiverged() {
			diverged = true
		}
		if diverged {
			return
		}
		var txs []*types.Transaction
		switch h {
		case 1:
			txs = w.FundingTxs()
			d, _ := w.TB.Deploy(0, 30000000, dzCode, "dz")
			chain.Sign(d, w.BK)
			txs = append(txs, chain.Immutable(d))
			txs = append(txs, lb.fundingTxs()...)
		default:
			var kinds []string
			txs, kinds = w.RandomTxs(rng.Sub(uint64(h)), 6)
			for i, k := range kinds {
				if k == "evm" {
					e, _ := txs[i].GetEIP155Tx()
					for j := range w.Eth {
						if w.Eth[j].OntAddr() == txs[i].Payer {
							evmNonce[j] = e.Nonce() + 1
						}
					}
				}
			}
		}
		if h == 2 {
			txs = append(txs, lb.deployTxs()...)
		}
		// transactions, window / hook pre-executions and observations the scenarios of lab.go scheduled for this height
		sl := lb.slot(h)
		defer delete(lb.slots, h)
		for _, f := range sl.txs {
			txs = append(txs, f()...)
		}
		b, err := a.MakeBlock(txs, 0)
		if err != nil {
			panic(err)
		}
		// pre-executions served INSIDE the commit of this block on ledger A (the callback runs on the committing
		// goroutine, which holds the saving lock; the hook is global, so it is cleared before the reference commits)
		hookRan := 0
		if len(sl.hook) > 0 {
			ledgerstore.VerifCrashPoint = func(name string, height uint32) {
				if height != uint32(h) {
					return
				}
				for _, p := range sl.hook[name] {
					lb.runPre(p, "hook:"+name, true)
					hookRan++
				}
			}
		}
		// the split API the consensus services use: ExecuteBlock, (requests arrive), SubmitBlock.  On some
		// blocks pre-executions are served inside that window; the committed result must not notice.
		var resA store.ExecuteResult
		var errA error
		if (h >= 2 && h%2 == 0) || len(sl.window) > 0 {
			resA, errA = a.Ledger.ExecuteBlock(b)
			if errA == nil {
				for i := 0; h%2 == 0 && i < 6; i++ {
					winN++
					pe := genPre(w, rng.Sub(uint64(winN)+5000000), dz, evmNonce)
					if p := vf.Catch(func() { pe.run(a) }); p != nil {
						r.Count("preexec_panicked")
					}
					r.Count("preexec_between_execute_and_submit")
					r.Eval(fmt.Sprintf("window/%s/%d/%d", pe.kind, h, i))
				}
				for _, p := range sl.window {
					lb.runPre(p, "between-execute-and-submit", false)
				}
				errA = a.SubmitExecuted(b, resA)
			}
		} else {
			resA, errA = a.CommitExec(b)
		}
		ledgerstore.VerifCrashPoint = nil
		if n := 0; len(sl.hook) > 0 {
			for _, ps := range sl.hook {
				n += len(ps)
			}
			if hookRan != n && errA == nil {
				r.Inconclusive(fmt.Sprintf("height %d: %d of %d hook-placed pre-executions ran (hook point names changed?)", h, hookRan, n))
			}
		}
		// the reference ledger receives the same block through the sync path
		errR := ref.CommitSync(b, resA.MerkleRoot)
		if errA != nil || errR != nil {
			wit := map[string]interface{}{"height": h, "recent_preexecutions": lb.recentList()}
			if resR, err := ref.Ledger.ExecuteBlock(b); err == nil && errA == nil && errR != nil {
				wit["write_set_diff(reference -> A)"] = chain.DiffDumps(writeSet(resR), writeSet(resA), 6)
			}
			r.Violation("ledger-with-preexec-diverges-from-reference:commit", fmt.Sprintf("A: %v / reference: %v", errA, errR), wit)
			diverged = true
			return
		}
		fa, fr := a.Fingerprint(), ref.Fingerprint()
		if d := fa.Diff(fr); d != "" {
			_, _, da := a.DumpState()
			_, _, dr := ref.DumpState()
			r.Violation("ledger-with-preexec-diverges-from-reference:"+d, d, map[string]interface{}{"height": h, "recent_preexecutions": lb.recentList(), "state_diff(reference -> A)": chain.DiffDumps(dr, da, 6)})
			diverged = true
			return
		}
		if ea, er := eventsJSON(a, uint32(h)), eventsJSON(ref, uint32(h)); ea != er {
			r.Violation("ledger-with-preexec-diverges-from-reference:event records", "event notifies of the block differ", map[string]interface{}{"height": h, "recent_preexecutions": lb.recentList(), "A": trunc(ea, 1500), "reference": trunc(er, 1500)})
			diverged = true
			return
		}
		r.Count("blocks_compared_with_reference")
		// the same block goes to the reference that shares no process state with ledger A (answers are judged as they arrive)
		xr.submit(a, b, resA, fa, lb.recentList())
		for _, f := range sl.checks {
			f()
		}
		for _, p := range sl.after {
			lb.runPre(p, "between-blocks", false)
		}
	}
	H := vf.N(8, 30)
	perBatch := vf.N(60, 500)
	n := 0
	for h := 1; h <= H && !diverged; h++ {
		if h >= 3 && h+4 <= H { // a few scenarios already here, next to the random batches
			lb.start(h, rng.Sub(uint64(h)+9000000), scenarioKinds[(h+int(vf.Seed()%97))%len(scenarioKinds)])
		}
		commitBoth(h)
		if h < 2 || diverged {
			continue
		}
		// ---- a batch of pre-executions against height h
		pb, err := a.MakeBlock(func() []*types.Transaction {
			t1, _ := w.TB.TransferTx("ont", w.Accts[0], w.Accts[1].Address, 2, 2500, 20000)
			mt := w.TB.Invoke(2500, 30000, chain.KVInvoke(w.KV, []byte("probe"), []byte("v"), true))
			chain.Sign(mt, w.Accts[2])
			return []*types.Transaction{t1, chain.Immutable(mt)}
		}(), 0)
		if err != nil {
			panic(err)
		}
		p0 := probe(a, pb)
		d0 := diskDump(dirA, filepath.Join(scratch, "dump"))
		f0 := a.Fingerprint()
		ev0 := eventsJSON(a, uint32(h))
		for i := 0; i < perBatch; i++ {
			n++
			pe := genPre(w, rng.Sub(uint64(n)+1000000), dz, evmNonce)
			var perr error
			if p := vf.Catch(func() { perr = pe.run(a) }); p != nil {
				r.Count("preexec_panicked")
				perr = fmt.Errorf("panic: %v", p)
			}
			if perr != nil {
				r.Count("preexec_error/" + pe.kind)
			} else {
				r.Count("preexec_ok/" + pe.kind)
			}
			r.Eval(fmt.Sprintf("%s/%d/%d", pe.kind, h, i))
			if i%10 == 9 || i == perBatch-1 {
				if d := f0.Diff(a.Fingerprint()); d != "" {
					r.Violation("preexec-changed-state:"+kindClass(pe.kind)+":"+d, d, map[string]interface{}{"height": h, "request": i, "kind": pe.kind, "note": "one of the last 10 requests"})
					f0 = a.Fingerprint()
				}
			}
		}
		if ev := eventsJSON(a, uint32(h)); ev != ev0 {
			r.Violation("preexec-changed-event-records", "event notifies of current block differ", map[string]interface{}{"height": h})
		}
		if d := diffDisk(d0, diskDump(dirA, filepath.Join(scratch, "dump"))); d != "" {
			r.Violation("preexec-changed-disk:"+d, "on-disk store "+d+" differs after a batch of pre-executions", map[string]interface{}{"height": h})
		}
		r.Count("disk_dump_compared")
		if p1 := probe(a, pb); p1 != p0 {
			r.Violation("preexec-changed-execution-of-probe-block", fmt.Sprintf("%v -> %v", p0, p1), map[string]interface{}{"height": h})
		}
		r.Count("probe_block_compared")
	}
	// ---- scenario stage: "phantom then real" pairs and hook-placed reads (lab.go), several per block
	L := vf.N(40, 120)
	for h := H + 1; h <= H+L && !diverged; h++ {
		if h+4 <= H+L {
			sr := rng.Sub(uint64(h) + 9000000)
			perm := sr.Perm(len(scenarioKinds))
			for i := 0; i < 3; i++ {
				// every kind comes round regularly, the order is seeded
				kind := scenarioKinds[(perm[i]+h)%len(scenarioKinds)]
				if i == 0 {
					kind = scenarioKinds[h%len(scenarioKinds)]
				}
				lb.start(h, sr.Sub(uint64(i)), kind)
			}
			if sr.Chance(60) {
				lb.startHook(h, sr.Sub(77))
			}
		}
		commitBoth(h)
	}
	H += L
	// ---- concurrent variant: pre-executions racing with block commits (race detector in thorough)
	if !diverged {
		var wg sync.WaitGroup
		stop := make(chan struct{})
		for g := 0; g < 3; g++ {
			wg.Add(1)
			go func(g int) {
				defer wg.Done()
				wg2 := chain.NewWorld(tag, 5)
				wg2.TB = chain.NewTxBuilder(uint32(50000 * (g + 1)))
				rr := vf.NewRNG(vf.Seed()).Sub(uint64(7000 + g))
				for i := 0; ; i++ {
					select {
					case <-stop:
						return
					default:
					}
					pe := genPre(wg2, rr.Sub(uint64(i)), dz, []uint64{0, 0})
					vf.Catch(func() { pe.run(a) })
					r.Count("concurrent_preexec")
				}
			}(g)
		}
		for h := H + 1; h <= H+vf.N(6, 40); h++ {
			commitBoth(h)
		}
		close(stop)
		wg.Wait()
	}
	a.Close()
	ref.Close()
	if fail := xr.finish(); fail != "" {
		r.Inconclusive("isolated reference process: " + fail)
	} else if !diverged && !xr.hasDiverged() {
		da, dx := diskDump(dirA, filepath.Join(scratch, "dumpA")), diskDump(dirX, filepath.Join(scratch, "dumpX"))
		for _, k := range []string{ledgerstore.DBDirState, ledgerstore.DBDirEvent, "merkle_tree.db"} {
			if da[k] != dx[k] {
				r.Violation("final-disk-state-differs-from-isolated-reference:"+k, da[k]+" vs "+dx[k], nil)
			}
		}
		r.Count("final_disk_compared_with_isolated_reference")
	}
	da, dr := diskDump(dirA, filepath.Join(scratch, "dumpA")), diskDump(dirR, filepath.Join(scratch, "dumpR"))
	// block store holds signatures (same bytes here: same block objects), event/state must match
	for _, k := range []string{ledgerstore.DBDirState, ledgerstore.DBDirEvent, "merkle_tree.db"} {
		if da[k] != dr[k] {
			r.Violation("final-disk-state-differs-from-reference:"+k, da[k]+" vs "+dr[k], nil)
		}
	}
	r.Count("final_disk_compared")
	r.Sample(map[string]interface{}{"heights": H, "requests_per_height": perBatch})
	for _, k := range []string{"PreExecuteContract/ont-transfer", "PreExecuteContract/ong-transfer-with-fee", "PreExecuteContract/storage-put", "PreExecuteContract/deploy", "PreExecuteContract/contract-destroy", "PreExecuteContract/approve",
		"PreExecuteContract/eip155-transfer", "PreExecuteContract/eip155-create+sstore+log", "PreExecuteEIP155", "PreExecuteEip155Tx/transfer", "TraceEip155Tx/create+sstore+log", "PreExecuteContractBatch/atomic=true", "PreExecuteContractBatch/atomic=false"} {
		r.Require("preexec_ok/"+k, 1)
	}
	r.Require("disk_dump_compared", 3)
	r.Require("probe_block_compared", 3)
	r.Require("blocks_compared_with_reference", 8)
	r.Require("concurrent_preexec", 20)
	r.Require("preexec_between_execute_and_submit", 12)
	r.Require("blocks_compared_with_isolated_reference", 30)
	r.Require("final_disk_compared_with_isolated_reference", 1)
	for _, k := range scenarioKinds {
		r.Require("scenario/"+k, 2)
		r.Require("phantom/"+k+"/preexec_effective", 2)
	}
	for _, k := range []string{"evm-factory-create", "evm-toplevel-create", "evm-value-to-fresh", "neo-contract-create", "neo-contract-migrate", "native-fresh-balance", "native-allowance", "ontid-register", "kv-fresh-key"} {
		r.Require("phantom/"+k+"/probed_while_absent_on_chain", 1)
	}
	for _, k := range []string{"evm-factory-create", "evm-toplevel-create", "neo-contract-create", "neo-contract-migrate"} {
		r.Require("phantom/"+k+"/probed_after_it_became_real", 1)
	}
	for _, k := range []string{"evm-selfdestruct", "neo-contract-destroy", "native-allowance-spent", "kv-deleted-key"} {
		r.Require("phantom/"+k+"/probed_while_still_on_chain", 1)
	}
	r.Require("phantom/evm/computed_child_address_confirmed", 1)
	for _, k := range append(append([]string{}, neoEntries...), evmEntries...) {
		r.Require("phantom_entry/"+k, 1)
	}
	for _, k := range []string{"between-blocks", "between-execute-and-submit", "hook:" + hookPoints[0], "hook:" + hookPoints[2], "hook:" + hookPoints[3]} {
		r.Require("phantom_preexec_placed/"+k, 3)
	}
	r.Require("hook_scenario/"+hookPoints[0], 3)
	r.Require("hook_scenario_keys_read_modify_written", 3)
	for _, k := range []string{"balanceOf", "allowance", "evm-probe", "evm-probe-child", "storage-get", "transfer-to-fresh", "evm-value"} {
		r.Require("phantom/hook-read/"+k+"/preexec_effective", 3)
	}
	for _, k := range []string{"evm-probe-call", "neo-contract-create/call-of-undeployed-contract-fails", "neo-contract-create/call-of-deployed-contract-succeeds",
		"neo-contract-destroy/call-of-live-contract-succeeds", "neo-contract-destroy/call-of-destroyed-contract-fails", "neo-contract-migrate/call-of-migration-target-fails",
		"neo-contract-migrate/call-of-migration-target-succeeds", "native-fresh-balance/spending-from-empty-account-fails", "native-allowance/transferFrom-without-allowance-fails",
		"native-allowance/transferFrom-with-allowance-succeeds", "native-allowance-spent/transferFrom-of-unspent-allowance-succeeds", "ontid-register/first-real-registration-succeeds",
		"ontid-register/second-registration-fails", "kv-fresh-key/append-to-absent-key-succeeds", "hook/transferFrom-of-the-allowance-created-during-the-hook-block-succeeds"} {
		r.Require("onchain/"+k+"/as_intended", 1)
	}
	if racelog.Enabled {
		racelog.Apply(r, "core/store/ledgerstore/", "smartcontract/storage/", "core/store/overlaydb/")
	}
	os.RemoveAll(scratch)
	r.Finish()
}

func eventsJSON(c *chain.Chain, h uint32) string {
	ev, err := c.Ledger.GetEventNotifyByBlock(h)
	if err != nil {
		return "err:" + err.Error()
	}
	b, _ := json.Marshal(ev)
	return string(b)
}

func trunc(s string, n int) string {
	if len(s) > n {
		return s[:n] + "…"
	}
	return s
}

func kindClass(k string) string {
	for i := 0; i < len(k); i++ {
		if k[i] == '/' {
			return k[:i]
		}
	}
	return k
}
