package main

// Fault-then-retry family: the commit of a log-carrying block fails inside submitBlock after the block
// store batch (block, bloom, at a section end the section bit index) has been assembled and before it is
// committed; the node stays up and the block of that height is added again and succeeds.  What is stored
// for the finally committed block is judged by the ordinary per-block and per-section oracles of main.go.
//
// Two ways of failing, both through the real commit code:
//   - "ccstore": the cross chain message database is closed while the block is submitted (the I/O error
//     SaveMsgToCrossChainStore returns is propagated by submitBlock), reopened afterwards.  The handle is
//     the unexported field LedgerStoreImp.crossChainStore; no exported path closes or replaces only that
//     store, so it is reached with reflect/unsafe (type and methods of the store itself are exported).
//     When the field cannot be found the case class is not counted and the run is inconclusive.
//   - "hookpanic": the verif crash point "submit:after-saveBlockToBlockStore" panics; the panic unwinds
//     SubmitBlock/AddBlock (deferred lock release) and is recovered here, the way the actor runtime of the
//     node recovers a panicking consensus/sync actor.

import (
	"fmt"
	"reflect"
	"unsafe"

	"github.com/ontio/ontology/common"
	"github.com/ontio/ontology/core/signature"
	"github.com/ontio/ontology/core/store"
	"github.com/ontio/ontology/core/store/ledgerstore"
	"github.com/ontio/ontology/core/types"
	"verifharness/lib/chain"
	"verifharness/lib/vf"
)

const faultPoint = "submit:after-saveBlockToBlockStore"

type faultPlan struct {
	kind  string // "ccstore" | "hookpanic"
	path  string // "submit" (ExecuteBlock+SubmitBlock) | "add" (AddBlock)
	prior string // "same": the failed attempt carries the very block committed afterwards; "other": a different block of the same height
}

func (p faultPlan) String() string { return p.kind + "/" + p.path + "/" + p.prior }

func planFault(sub *vf.RNG, ntx int) faultPlan {
	p := faultPlan{kind: "ccstore", path: "submit", prior: "same"}
	if sub.Chance(35) {
		p.kind = "hookpanic"
	}
	if sub.Chance(40) {
		p.path = "add"
	}
	if ntx > 0 && sub.Chance(30) {
		p.prior = "other"
	}
	return p
}

// crossChainMsgFor builds the valid cross chain message that accompanies the block following the current tip.
func crossChainMsgFor(c *chain.Chain) (*types.CrossChainMsg, error) {
	msg := &types.CrossChainMsg{Version: types.CURR_CROSS_STATES_VERSION, Height: c.Ledger.GetCurrentBlockHeight(), StatesRoot: common.UINT256_EMPTY}
	h := msg.Hash()
	sig, err := signature.Sign(c.BK, h[:])
	if err != nil {
		return nil, err
	}
	msg.SigData = [][]byte{sig}
	return msg, nil
}

func crossChainStoreSlot(c *chain.Chain) **ledgerstore.CrossChainStore {
	fv := reflect.ValueOf(c.Store()).Elem().FieldByName("crossChainStore")
	if !fv.IsValid() || fv.Type() != reflect.TypeOf((*ledgerstore.CrossChainStore)(nil)) || !fv.CanAddr() {
		return nil
	}
	return (**ledgerstore.CrossChainStore)(unsafe.Pointer(fv.UnsafeAddr()))
}

func commitVia(c *chain.Chain, path string, b *types.Block, msg *types.CrossChainMsg, res store.ExecuteResult) error {
	if path == "add" {
		return c.Ledger.AddBlock(b, msg, res.MerkleRoot)
	}
	return c.Ledger.SubmitBlock(b, msg, res)
}

// failOnce makes one commit attempt of b fail at the fault point.  ok=false: the scenario is void (reason in why).
func failOnce(c *chain.Chain, p faultPlan, b *types.Block, msg *types.CrossChainMsg, res store.ExecuteResult) (ok bool, why string) {
	h := b.Header.Height
	var err error
	switch p.kind {
	case "ccstore":
		slot := crossChainStoreSlot(c)
		if slot == nil || *slot == nil {
			return false, "LedgerStoreImp.crossChainStore not reachable"
		}
		if e := (*slot).Close(); e != nil {
			return false, "closing the cross chain store: " + e.Error()
		}
		err = commitVia(c, p.path, b, msg, res)
		ns, e := ledgerstore.NewCrossChainStore(c.Dir)
		if e != nil {
			panic(fmt.Errorf("reopening the cross chain store: %v", e))
		}
		*slot = ns
		if err == nil {
			return false, "commit with a closed cross chain store did not fail"
		}
	case "hookpanic":
		fired := false
		ledgerstore.VerifCrashPoint = func(name string, height uint32) {
			if name == faultPoint && height == h && !fired {
				fired = true
				panic("c43: injected fault at " + faultPoint)
			}
		}
		pn := vf.Catch(func() { err = commitVia(c, p.path, b, msg, res) })
		ledgerstore.VerifCrashPoint = nil
		if !fired || pn == nil {
			return false, fmt.Sprintf("crash point %q not reached (err=%v)", faultPoint, err)
		}
	}
	if got := c.Ledger.GetCurrentBlockHeight(); got != h-1 {
		return false, fmt.Sprintf("height %d after the failed attempt of block %d", got, h)
	}
	return true, ""
}
