// C43 — Block log blooms never miss a log of the block; section bit index = per-block blooms.
package main

import (
	"fmt"
	"math/big"
	"os"
	"path/filepath"

	ethcom "github.com/ethereum/go-ethereum/common"
	"github.com/ethereum/go-ethereum/common/bitutil"
	ethtypes "github.com/ethereum/go-ethereum/core/types"
	"github.com/ethereum/go-ethereum/crypto"
	"github.com/ontio/ontology/core/store"
	"github.com/ontio/ontology/core/store/ledgerstore"
	"github.com/ontio/ontology/core/types"
	"github.com/ontio/ontology/smartcontract/event"
	"verifharness/lib/chain"
	"verifharness/lib/vf"
)

// runtime code of a contract that emits LOGk: topics = first k calldata words, data = rest.
func logRuntime(k int) []byte {
	off := byte(32 * k)
	c := []byte{0x60, off, 0x36, 0x03, 0x60, off, 0x60, 0x00, 0x37} // size=CALLDATASIZE-32k ; CALLDATACOPY(0, 32k, size)
	for i := k - 1; i >= 0; i-- {
		c = append(c, 0x60, byte(32*i), 0x35) // PUSH1 32i CALLDATALOAD
	}
	c = append(c, 0x60, off, 0x36, 0x03, 0x60, 0x00, byte(0xa0+k), 0x00) // size, offset 0, LOGk, STOP
	return c
}

func initCode(runtime []byte) []byte {
	// PUSH1 len DUP1 PUSH1 off PUSH1 0 CODECOPY PUSH1 0 RETURN
	pre := []byte{0x60, byte(len(runtime)), 0x80, 0x60, 0x0b, 0x60, 0x00, 0x39, 0x60, 0x00, 0xf3}
	pre[4] = byte(len(pre))
	return append(pre, runtime...)
}

type expLog struct {
	addr   ethcom.Address
	topics []ethcom.Hash
}

func bloomBit(b ethtypes.Bloom, i int) bool {
	return b[ethtypes.BloomByteLength-1-i/8]&(1<<uint(i%8)) != 0
}

func main() {
	r := vf.NewRun("C43", "exploration",
		"a solo chain whose blocks carry (in ~6% of blocks) 1-4 EVM calls into generated LOG0..LOG4 contracts with random topics/data, plus failing calls and plain transfers; for every committed block each log reported by the stored events and each log expected by construction must hit the stored bloom (address and every topic); at each completed 4096-block section every one of the 2048 bit vectors must equal, bit for bit, the per-block blooms it was built from; restarts inside and exactly at the end of a section; on a quarter of the log-carrying blocks and at the section boundaries a first commit attempt (of the same block, or of another block of that height) fails inside submitBlock after the block store batch was filled (cross chain store closed -> error returned, or a recovered panic at the verif crash point), through SubmitBlock or AddBlock, and the block is then added again in the same process. distinct by (height, number of logs, fault plan)")
	scratch := vf.Scratch("c43")
	defer os.RemoveAll(scratch)
	rng := vf.NewRNG(vf.Seed())
	tag := fmt.Sprintf("c43-%d", vf.Seed())
	w := chain.NewWorld(tag, 3)
	dir := filepath.Join(scratch, "l")
	c, err := chain.NewSolo(dir, w.BK)
	if err != nil {
		panic(err)
	}
	L := vf.N(4200, 8400)
	restarts := map[int]bool{3000: true}
	if vf.Thorough() {
		restarts = map[int]bool{2000: true, 4095: true, 6000: true, 8191: true}
	}
	sender := w.Eth[0]
	nonce := uint64(0)
	var contracts [5]ethcom.Address
	blooms := make([]ethtypes.Bloom, 0, L+1)
	gb, _ := c.Ledger.GetBloomData(0)
	blooms = append(blooms, gb)
	sectionsChecked := 0
	for h := 1; h <= L; h++ {
		sub := rng.Sub(uint64(h))
		var txs []*types.Transaction
		var expect []expLog
		logBlock := false
		switch {
		case h == 1:
			txs = w.FundingTxs()
		case h == 2:
			for k := 0; k <= 4; k++ {
				t, err := chain.EvmTx(sender, nonce, nil, big.NewInt(0), 300000, 2500, initCode(logRuntime(k)))
				if err != nil {
					panic(err)
				}
				contracts[k] = crypto.CreateAddress(sender.Addr, nonce)
				nonce++
				txs = append(txs, t)
			}
		case sub.Chance(6) || h%4096 >= 4093 || h%4096 <= 1:
			logBlock = true
			n := 1 + sub.Intn(4)
			for i := 0; i < n; i++ {
				k := sub.Intn(5)
				var data []byte
				var topics []ethcom.Hash
				for j := 0; j < k; j++ {
					var t ethcom.Hash
					copy(t[:], sub.Bytes(32))
					if sub.Chance(20) {
						t = ethcom.Hash{} // zero topic
					}
					topics = append(topics, t)
					data = append(data, t[:]...)
				}
				data = append(data, sub.Bytes(sub.Intn(70))...)
				gas := uint64(200000)
				fails := sub.Chance(12)
				if fails {
					gas = 21000 + uint64(16*len(data)) + 50 // enough to start, not to finish: reverts, no log
				}
				t, err := chain.EvmTx(sender, nonce, &contracts[k], big.NewInt(0), gas, 2500, data)
				if err != nil {
					panic(err)
				}
				nonce++
				txs = append(txs, t)
				if !fails {
					expect = append(expect, expLog{contracts[k], topics})
				} else {
					r.Count("failing_log_call")
				}
			}
			if sub.Chance(30) {
				t, _ := w.TB.TransferTx("ont", w.Accts[0], w.Accts[1].Address, 1, 0, 20000)
				txs = append(txs, t)
			}
		}
		b, err := c.MakeBlock(txs, 0)
		if err != nil {
			panic(err)
		}
		// fault-then-retry (fault.go): on some log-carrying blocks, and on the first, the last and the last but one
		// block of a section, a commit attempt fails inside submitBlock first; the node stays up
		var plan *faultPlan
		fsub := rng.Sub(uint64(h) + 1<<40)
		sectionEnd := (h+1)%ledgerstore.BloomBitsBlocks == 0
		if logBlock && (fsub.Chance(25) || h%ledgerstore.BloomBitsBlocks >= ledgerstore.BloomBitsBlocks-2 || h%ledgerstore.BloomBitsBlocks == 0) {
			p := planFault(fsub, len(txs))
			if sectionEnd {
				p.prior = "same"
				p.kind = []string{"ccstore", "hookpanic"}[(h/ledgerstore.BloomBitsBlocks)%2]
			}
			plan = &p
		}
		var res store.ExecuteResult
		if plan != nil {
			msg, err := crossChainMsgFor(c)
			if err != nil {
				panic(err)
			}
			fb := b
			if plan.prior == "other" {
				if fb, err = c.MakeBlock(txs[:len(txs)-1], 0); err != nil {
					panic(err)
				}
			}
			fres, err := c.Ledger.ExecuteBlock(fb)
			if err != nil {
				panic(fmt.Errorf("block %d (attempt that is to fail): %v", h, err))
			}
			if ok, why := failOnce(c, *plan, fb, msg, fres); !ok {
				r.Inconclusive(fmt.Sprintf("height %d fault %s: %s", h, plan, why))
				plan = nil
			} else {
				r.Count("fault_then_retry")
				r.Count("fault_kind/" + plan.kind)
				r.Count("fault_path/" + plan.path)
				r.Count("fault_prior/" + plan.prior)
				if sectionEnd {
					r.Count("fault_then_retry_at_section_end")
				}
				if fres.Bloom != (ethtypes.Bloom{}) {
					r.Count("fault_attempt_had_nonempty_bloom")
				}
			}
			if res, err = c.Ledger.ExecuteBlock(b); err == nil {
				path := "submit"
				if plan != nil {
					path = plan.path
				}
				err = commitVia(c, path, b, msg, res)
			}
			if err != nil {
				// the property says nothing about whether a retry succeeds; the chain cannot go on without it
				r.Inconclusive(fmt.Sprintf("height %d: adding the block again after the injected fault fails: %v", h, err))
				break
			}
			if got := c.Ledger.GetCurrentBlockHeight(); got != uint32(h) {
				r.Inconclusive(fmt.Sprintf("height %d: current height %d after the retry", h, got))
				break
			}
		} else {
			res, err = c.CommitExec(b)
			if err != nil {
				panic(fmt.Errorf("block %d: %v", h, err))
			}
		}
		bl, err := c.Ledger.GetBloomData(uint32(h))
		if err != nil {
			r.Violation("bloom-missing", err.Error(), map[string]interface{}{"height": h})
		}
		blooms = append(blooms, bl)
		if bl != res.Bloom {
			r.Violation("stored-bloom-differs-from-executed-bloom", "", map[string]interface{}{"height": h})
		}
		// logs reported by the stored events
		evs, err := c.Ledger.GetEventNotifyByBlock(uint32(h))
		nlogs := 0
		var seen []expLog
		if err == nil {
			for _, en := range evs {
				for _, n := range en.Notify {
					if !n.IsEvm {
						continue
					}
					lg, err := event.NotifyEventInfoToEvmLog(n)
					if err != nil {
						r.Violation("evm-event-undecodable", err.Error(), map[string]interface{}{"height": h})
						continue
					}
					nlogs++
					seen = append(seen, expLog{lg.Address, lg.Topics})
					if !ethtypes.BloomLookup(bl, lg.Address) {
						r.Violation("bloom-misses-log-address", fmt.Sprintf("height %d address %s", h, lg.Address.Hex()), map[string]interface{}{"height": h, "address": lg.Address.Hex()})
					}
					for ti, t := range lg.Topics {
						if !ethtypes.BloomLookup(bl, t) {
							r.Violation("bloom-misses-log-topic", fmt.Sprintf("height %d topic[%d] %s", h, ti, t.Hex()), map[string]interface{}{"height": h, "topic": t.Hex()})
						}
						r.Count("topic_checked")
					}
					r.Count("log_checked")
				}
			}
		}
		// every log expected by construction must have been reported and be in the bloom
		for _, e := range expect {
			found := false
			for _, s := range seen {
				if s.addr == e.addr && len(s.topics) == len(e.topics) {
					same := true
					for i := range s.topics {
						if s.topics[i] != e.topics[i] {
							same = false
						}
					}
					if same {
						found = true
						break
					}
				}
			}
			if !found {
				r.Violation("expected-log-not-in-events", fmt.Sprintf("height %d contract %s topics %d", h, e.addr.Hex(), len(e.topics)), map[string]interface{}{"height": h})
			}
			if !ethtypes.BloomLookup(bl, e.addr) {
				r.Violation("bloom-misses-expected-log-address", "", map[string]interface{}{"height": h})
			}
			for _, t := range e.topics {
				if !ethtypes.BloomLookup(bl, t) {
					r.Violation("bloom-misses-expected-log-topic", "", map[string]interface{}{"height": h, "topic": t.Hex()})
				}
			}
			r.Count("expected_log_checked")
		}
		if plan != nil && nlogs > 0 {
			r.Count("fault_then_retry_block_with_logs")
			r.Add("fault_then_retry_logs_checked", int64(nlogs))
			r.Eval(fmt.Sprintf("%d/%d/%s", h, nlogs, plan))
			if r.Counter("fault_then_retry_block_with_logs") <= 3 {
				r.Sample(map[string]interface{}{"height": h, "logs": nlogs, "txs": len(txs), "fault_then_retry": plan.String()})
			}
		} else if nlogs > 0 {
			r.Eval(fmt.Sprintf("%d/%d", h, nlogs))
			if nlogs >= 2 {
				r.Sample(map[string]interface{}{"height": h, "logs": nlogs, "txs": len(txs)})
			}
		} else {
			r.Eval("")
		}
		// a completed section: exact agreement of the bit index with the per-block blooms
		if (h+1)%ledgerstore.BloomBitsBlocks == 0 {
			checkSection(r, c, uint32(h/ledgerstore.BloomBitsBlocks), blooms, "live")
			sectionsChecked++
		}
		if restarts[h] {
			if err := c.Reopen(); err != nil {
				r.Violation("reopen-fails", err.Error(), map[string]interface{}{"height": h})
				break
			}
			r.Count("restarts")
			// stored blooms and completed sections must read the same after a restart
			for s := 0; s < (h+1)/ledgerstore.BloomBitsBlocks; s++ {
				checkSection(r, c, uint32(s), blooms, "after-restart")
			}
			for hh := 0; hh <= h; hh++ {
				if b2, _ := c.Ledger.GetBloomData(uint32(hh)); b2 != blooms[hh] {
					r.Violation("bloom-changed-by-restart", "", map[string]interface{}{"height": hh})
					break
				}
				r.Count("bloom_reread_after_restart")
			}
		}
	}
	c.Close()
	r.Require("log_checked", 200)
	r.Require("topic_checked", 300)
	r.Require("expected_log_checked", 200)
	r.Require("failing_log_call", 5)
	r.Require("section_bits_compared/live", 2048)
	r.Require("restarts", 1)
	r.Require("bloom_reread_after_restart", 3000)
	r.Require("fault_then_retry", 20)
	r.Require("fault_then_retry_block_with_logs", 15)
	r.Require("fault_attempt_had_nonempty_bloom", 15)
	r.Require("fault_kind/ccstore", 5)
	r.Require("fault_kind/hookpanic", 3)
	r.Require("fault_path/submit", 3)
	r.Require("fault_path/add", 3)
	r.Require("fault_prior/same", 5)
	r.Require("fault_prior/other", 3)
	r.Require("fault_then_retry_at_section_end", 1)
	if vf.Thorough() {
		r.Require("section_bits_compared/after-restart", 3*2048)
	}
	r.Assume("logs come from generated LOG0..LOG4 contracts and native ONG transfer events; filter start height 0 (solo network)")
	os.RemoveAll(scratch)
	r.Finish()
}

func checkSection(r *vf.Run, c *chain.Chain, section uint32, blooms []ethtypes.Bloom, stage string) {
	db := c.Store().GetIndexStore()
	base := int(section) * ledgerstore.BloomBitsBlocks
	nonEmpty := 0
	for bit := 0; bit < ethtypes.BloomBitLength; bit++ {
		comp, err := ledgerstore.ReadBloomBits(db, uint(bit), section)
		if err != nil {
			r.Violation("section-bits-missing:"+stage, fmt.Sprintf("section %d bit %d: %v", section, bit, err), map[string]interface{}{"section": section, "bit": bit})
			return
		}
		vec, err := bitutil.DecompressBytes(comp, ledgerstore.BloomBitsBlocks/8)
		if err != nil {
			r.Violation("section-bits-undecodable:"+stage, err.Error(), map[string]interface{}{"section": section, "bit": bit})
			return
		}
		for i := 0; i < ledgerstore.BloomBitsBlocks; i++ {
			in := vec[i/8]&(1<<uint(7-i%8)) != 0
			want := bloomBit(blooms[base+i], bit)
			if in != want {
				r.Violation("section-bit-disagrees-with-block-bloom:"+stage, fmt.Sprintf("section %d bit %d block %d: index=%v bloom=%v", section, bit, base+i, in, want), map[string]interface{}{"section": section, "bit": bit, "height": base + i})
				return
			}
			if in {
				nonEmpty++
			}
		}
		r.Count("section_bits_compared/" + stage)
	}
	r.Add("section_set_bits/"+stage, int64(nonEmpty))
	if nonEmpty == 0 {
		r.Inconclusive(fmt.Sprintf("section %d has no set bit at all", section))
	}
}
