// C44, storage-layer half.
//
// Three-layer reference model (lib/kvl) against the real CacheDB -> OverlayDB ->
// LevelDBStore(mem) stack.  A layout spreads the storage of contract A (and of contracts
// whose address is a byte-neighbour of A, and sometimes of the migration target) over the
// persistent store, the block overlay and the transaction cache -- tombstones in the upper
// layers hiding lower entries included.  Then MigrateContractStorage / CleanContractStorage
// run (alone, chained, followed by a tx Reset) and after every step, after the tx commit,
// after the block commit and on a fresh stack over the same store the whole key universe
// is compared with the model at all three levels, prefix iterators included.
package main

import (
	"bytes"
	"crypto/sha256"
	"encoding/binary"
	"fmt"
	"runtime"
	"sort"
	"strings"
	"time"

	"github.com/ontio/ontology/common"
	"github.com/ontio/ontology/common/config"
	"github.com/ontio/ontology/core/payload"
	scom "github.com/ontio/ontology/core/store/common"
	"verifharness/lib/kvl"
	"verifharness/lib/vf"
)

const (
	pfxContract  = byte(scom.ST_CONTRACT)
	pfxDestroyed = byte(scom.ST_DESTROYED)
)

var sufAlphabet = []byte{0x00, 0x01, 'a', 0xfe, 0xff}

func rawKey(prefix byte, a common.Address, suffix []byte) string {
	k := make([]byte, 0, 21+len(suffix))
	k = append(k, prefix)
	k = append(k, a[:]...)
	k = append(k, suffix...)
	return string(k)
}

func succAddr(a common.Address) (common.Address, bool) {
	for i := len(a) - 1; i >= 0; i-- {
		a[i]++
		if a[i] != 0 {
			return a, true
		}
	}
	return a, false
}

func predAddr(a common.Address) (common.Address, bool) {
	for i := len(a) - 1; i >= 0; i-- {
		a[i]--
		if a[i] != 0xff {
			return a, true
		}
	}
	return a, false
}

func genAddr(rng *vf.RNG) (a common.Address, kind string) {
	copy(a[:], rng.Bytes(20))
	c := rng.Intn(100)
	switch {
	case c < 55:
		return a, "random"
	case c < 72:
		for j := 1 + rng.Intn(3); j > 0; j-- {
			a[20-j] = 0xff
		}
		return a, "ends_ff"
	case c < 84:
		for j := 1 + rng.Intn(3); j > 0; j-- {
			a[20-j] = 0x00
		}
		return a, "ends_00"
	case c < 89:
		for j := range a {
			a[j] = 0xff
		}
		if rng.Bool() {
			a[19] = 0xfe
		}
		return a, "all_ff"
	case c < 94:
		for j := range a {
			a[j] = 0
		}
		if rng.Bool() {
			a[19] = 1
		}
		return a, "all_00"
	default:
		a[0] = 0xff
		return a, "first_ff"
	}
}

type layoutCase struct {
	r   *vf.Run
	rng *vf.RNG
	idx int

	roles    []string // in creation order
	addr     map[string]common.Address
	roleOf   map[common.Address]string
	suffixes [][]byte

	s        *kvl.Stack
	m        *kvl.Model
	universe map[string]bool
	pattern  map[string]string // raw key -> layer pattern at layout time, e.g. "p=v,o=t,x=-"
	srcOf    map[string]string // raw key under a migration target -> raw key it was copied from
	layout   []string          // witness: how the stack was built
	script   []string          // witness: what was executed
	opKind   string
	phase    string
	gone     map[string]bool // roles migrated away / destroyed so far
	dest     map[string]bool // roles that received a migration
	destPre  bool
	failed   bool
	valCtr   int
	counters map[string]int64
	beat     *kvl.Beat
}

func (lc *layoutCase) count(s string) { lc.counters[s]++ }

func (lc *layoutCase) addrHex() map[string]string {
	out := map[string]string{}
	for role, a := range lc.addr {
		out[role] = vf.Hex(a[:])
	}
	return out
}

func (lc *layoutCase) report(key, detail string) {
	if lc.failed {
		return
	}
	lc.failed = true
	if lc.destPre {
		key += ":dest-preexisting"
	}
	lc.r.Violation(key, detail, map[string]interface{}{
		"case": lc.idx, "addresses": lc.addrHex(), "layout": lc.layout, "script": lc.script, "phase": lc.phase, "detail": detail,
		"track_destroyed_height": config.GetTrackDestroyedContractHeight(),
		"model_persist":          kvl.KVStrings(kvl.SortedLayer(kvl.Layer(lc.m.Persist))), "model_overlay": kvl.KVStrings(kvl.SortedLayer(lc.m.Overlay)), "model_tx": kvl.KVStrings(kvl.SortedLayer(lc.m.Tx)),
	})
}

func (lc *layoutCase) newVal(tag byte) []byte {
	lc.valCtr++
	v := []byte{tag, byte(lc.valCtr >> 8), byte(lc.valCtr)}
	n := lc.rng.Intn(6)
	if lc.rng.Chance(10) {
		n = lc.rng.Intn(60)
	}
	return append(v, lc.rng.Bytes(n)...)
}

func (lc *layoutCase) addRole(role string, a common.Address) bool {
	if _, dup := lc.roleOf[a]; dup {
		return false
	}
	lc.roles = append(lc.roles, role)
	lc.addr[role] = a
	lc.roleOf[a] = role
	return true
}

// describe names the owner of a raw key: role and record type.
func (lc *layoutCase) describe(raw string) (role, rec string) {
	if len(raw) < 21 {
		return "?", "other"
	}
	var a common.Address
	copy(a[:], raw[1:21])
	role = lc.roleOf[a]
	if role == "" {
		role = "?"
	}
	switch raw[0] {
	case kvl.StoragePrefix:
		rec = "storage"
	case pfxContract:
		rec = "contract-record"
	case pfxDestroyed:
		rec = "destroyed-marker"
	default:
		rec = "other"
	}
	return
}

// place writes one raw key into the chosen layers of the real stack and the model.
func (lc *layoutCase) place(raw string, p, o, x byte, val func(tag byte) []byte) {
	pat := fmt.Sprintf("p=%c,o=%c,x=%c", p, o, x)
	lc.pattern[raw] = pat
	lc.universe[raw] = true
	desc := vf.Hex([]byte(raw)) + " " + pat
	if p == 'v' {
		v := val('P')
		lc.m.Persist[raw] = v
		desc += " P=" + vf.Hex(v)
	}
	switch o {
	case 'v':
		v := val('O')
		lc.m.Overlay[raw] = v
		desc += " O=" + vf.Hex(v)
	case 't':
		lc.m.Overlay[raw] = nil
	}
	switch x {
	case 'v':
		v := val('X')
		lc.m.Tx[raw] = v
		desc += " X=" + vf.Hex(v)
	case 't':
		lc.m.Tx[raw] = nil
	}
	lc.layout = append(lc.layout, desc)
}

// materialize builds the real stack from the model layers (random write order).
func (lc *layoutCase) materialize() error {
	var init []kvl.KV
	for _, kv := range kvl.SortedLayer(kvl.Layer(lc.m.Persist)) {
		init = append(init, kv)
	}
	if err := lc.s.Populate(init); err != nil {
		return err
	}
	ov := kvl.SortedLayer(lc.m.Overlay)
	for _, i := range lc.rng.Perm(len(ov)) {
		if len(ov[i].V) == 0 {
			lc.s.Overlay.Delete(ov[i].K)
		} else {
			lc.s.Overlay.Put(ov[i].K, ov[i].V)
		}
	}
	tx := kvl.SortedLayer(lc.m.Tx)
	for _, i := range lc.rng.Perm(len(tx)) {
		if tx[i].K[0] != kvl.StoragePrefix {
			panic("tx layer of a layout holds storage keys only")
		}
		if len(tx[i].V) == 0 {
			lc.s.Cache.Delete(tx[i].K[1:])
		} else {
			lc.s.Cache.Put(tx[i].K[1:], tx[i].V)
		}
	}
	return nil
}

func (lc *layoutCase) sortedUniverse() []string {
	out := make([]string, 0, len(lc.universe))
	for k := range lc.universe {
		out = append(out, k)
	}
	sort.Strings(out)
	return out
}

// mismatch turns one differing key into a structural violation key.
func (lc *layoutCase) mismatch(level, raw string, got, want []byte) {
	role, rec := lc.describe(raw)
	clause := "other-key-changed"
	switch {
	case rec == "contract-record" || rec == "destroyed-marker":
		clause = rec + "-wrong"
		if lc.gone[role] {
			clause = rec + "-of-gone-address-wrong"
		}
	case lc.gone[role] && len(want) == 0 && len(got) != 0:
		clause = "key-still-live-under-gone-address"
	case lc.dest[role] && len(want) != 0 && len(got) == 0:
		clause = "entry-not-readable-under-new-address"
	case lc.dest[role] && len(want) != 0 && len(got) != 0:
		clause = "entry-value-differs-under-new-address"
	case lc.dest[role]:
		clause = "unexpected-key-under-new-address"
	case strings.HasPrefix(role, "N"):
		clause = "neighbour-contract-changed"
	}
	src := raw
	if s, ok := lc.srcOf[raw]; ok {
		src = s
	}
	pat := lc.pattern[src]
	if pat == "" {
		pat = "none"
	}
	lc.report(fmt.Sprintf("%s:%s:layout[%s]:level=%s:phase=%s", lc.opKind, clause, pat, level, lc.phase),
		fmt.Sprintf("%s of %s, key %x at level %s: got %x want %x", rec, role, raw, level, got, want))
}

func same(raw string, got, want []byte) bool {
	if raw[0] == pfxDestroyed { // only the presence of the marker is specified
		return (len(got) != 0) == (len(want) != 0)
	}
	return bytes.Equal(got, want)
}

// check compares the whole universe at all three levels, the contract status of every
// address and the prefix iterators with the model.
func (lc *layoutCase) check(phase string) {
	if lc.failed {
		return
	}
	lc.phase = phase
	lc.count("state_checks")
	defer lc.beat.Tick()
	if p := vf.Catch(func() { lc.checkInner() }); p != nil {
		lc.report(lc.opKind+":panic:check:phase="+phase, fmt.Sprint(p))
	}
}

func (lc *layoutCase) checkInner() {
	m, s := lc.m, lc.s
	for _, raw := range lc.sortedUniverse() {
		if lc.failed {
			return
		}
		k := []byte(raw)
		v, err := s.Store.Get(k)
		if err != nil && err != scom.ErrNotFound {
			lc.report(lc.opKind+":store-get-error", err.Error())
			return
		}
		if err == scom.ErrNotFound {
			v = nil
		}
		if !same(raw, v, m.StoreGet(raw)) {
			lc.mismatch(kvl.LvStore, raw, v, m.StoreGet(raw))
			return
		}
		v, err = s.Overlay.Get(k)
		if err != nil {
			lc.report(lc.opKind+":overlay-get-error", err.Error())
			return
		}
		if !same(raw, v, m.OverlayGet(raw)) {
			lc.mismatch(kvl.LvOverlay, raw, v, m.OverlayGet(raw))
			return
		}
		if k[0] == kvl.StoragePrefix {
			v, err = s.Cache.Get(k[1:])
			if err != nil {
				lc.report(lc.opKind+":cache-get-error", err.Error())
				return
			}
			if !same(raw, v, m.TxGet(raw)) {
				lc.mismatch(kvl.LvCache, raw, v, m.TxGet(raw))
				return
			}
		}
	}
	// contract status through the transaction cache
	for _, role := range lc.roles {
		a := lc.addr[role]
		wantDestroyed := len(m.TxGet(rawKey(pfxDestroyed, a, nil))) != 0
		wantContract := !wantDestroyed && len(m.TxGet(rawKey(pfxContract, a, nil))) != 0
		d, err := s.Cache.IsContractDestroyed(a)
		if err != nil || d != wantDestroyed {
			which := "unexpected-for-" + roleClass(role)
			if lc.gone[role] {
				which = "missing-for-gone-address"
			}
			lc.report(fmt.Sprintf("%s:destroyed-flag:%s:phase=%s", lc.opKind, which, lc.phase),
				fmt.Sprintf("IsContractDestroyed(%s=%x)=%v,%v want %v", role, a[:], d, err, wantDestroyed))
			return
		}
		dc, d2, err := s.Cache.GetContract(a)
		if err != nil || d2 != wantDestroyed || (dc != nil) != wantContract {
			which := roleClass(role)
			if lc.gone[role] {
				which = "gone-address"
			}
			lc.report(fmt.Sprintf("%s:get-contract:%s:phase=%s", lc.opKind, which, lc.phase),
				fmt.Sprintf("GetContract(%s=%x)=(contract:%v, destroyed:%v, err:%v) want (contract:%v, destroyed:%v)", role, a[:], dc != nil, d2, err, wantContract, wantDestroyed))
			return
		}
	}
	// prefix iterators: every address, and the whole storage area
	limit := 4*len(lc.universe) + 16
	iter := func(level string, prefix []byte, owner string) {
		if lc.failed {
			return
		}
		lc.count("iterations")
		s.CheckIter(m, level, prefix, limit, func(clause, detail string) {
			what := roleClass(owner)
			if lc.gone[owner] {
				what = "gone-address"
			} else if lc.dest[owner] {
				what = "new-address"
			}
			lc.report(fmt.Sprintf("%s:%s:prefix-of-%s:phase=%s", lc.opKind, clause, what, lc.phase), detail)
		}, nil)
	}
	levels := []string{kvl.LvCache, kvl.LvOverlay, kvl.LvStore}
	for _, role := range lc.roles {
		a := lc.addr[role]
		p := append([]byte{kvl.StoragePrefix}, a[:]...)
		for _, lv := range levels {
			iter(lv, p, role)
		}
	}
	for _, lv := range levels {
		iter(lv, []byte{kvl.StoragePrefix}, "all")
	}
}

func roleClass(role string) string {
	switch {
	case strings.HasPrefix(role, "N"):
		return "neighbour"
	case role == "all":
		return "all-storage"
	default:
		return "contract-" + role
	}
}

// ---- the operations under test, applied to the real stack and to the model

func (lc *layoutCase) markGone(a common.Address, height uint32) {
	lc.m.Tx[rawKey(pfxContract, a, nil)] = nil
	lc.universe[rawKey(pfxContract, a, nil)] = true
	lc.universe[rawKey(pfxDestroyed, a, nil)] = true
	if height >= config.GetTrackDestroyedContractHeight() {
		var h [4]byte
		binary.LittleEndian.PutUint32(h[:], height)
		lc.m.Tx[rawKey(pfxDestroyed, a, nil)] = h[:]
		lc.count("tracking_active")
	} else {
		lc.count("tracking_inactive")
	}
}

func (lc *layoutCase) shapeAtOp(from common.Address) (live []kvl.KV) {
	p := rawKey(kvl.StoragePrefix, from, nil)
	live = lc.m.Live(kvl.LvCache, p)
	for _, c := range kvl.JoinShape(lc.m.Tx, lc.m.Live(kvl.LvOverlay, p), p) {
		lc.count("op_join_shape/" + c)
	}
	// which layers the source keys of this operation live in
	for _, kv := range live {
		k := string(kv.K)
		_, inX := lc.m.Tx[k]
		_, inO := lc.m.Overlay[k]
		_, inP := lc.m.Persist[k]
		switch {
		case inX && !inO && !inP:
			lc.count("op_source/tx_cache_only")
		case inX:
			lc.count("op_source/tx_cache_over_lower")
		case inO && !inP:
			lc.count("op_source/overlay_only")
		case inO:
			lc.count("op_source/overlay_over_persisted")
		default:
			lc.count("op_source/persisted_only")
		}
	}
	for k, v := range lc.m.Tx {
		if strings.HasPrefix(k, p) && len(v) == 0 && len(lc.m.OverlayGet(k)) != 0 {
			lc.count("op_source/tx_tombstone_hides_lower")
		}
	}
	for k, v := range lc.m.Overlay {
		if _, inX := lc.m.Tx[k]; !inX && strings.HasPrefix(k, p) && len(v) == 0 && len(lc.m.Persist[k]) != 0 {
			lc.count("op_source/overlay_tombstone_hides_persisted")
		}
	}
	return live
}

func (lc *layoutCase) migrate(fromRole, toRole string, height uint32) {
	from, to := lc.addr[fromRole], lc.addr[toRole]
	lc.opKind = "migrate"
	lc.script = append(lc.script, fmt.Sprintf("MigrateContractStorage(%s=%x, %s=%x, height=%d)", fromRole, from[:], toRole, to[:], height))
	live := lc.shapeAtOp(from)
	if len(live) > 0 {
		lc.count("migrate_with_live_keys")
	} else {
		lc.count("migrate_with_no_live_keys")
	}
	var err error
	if p := vf.Catch(func() { err = lc.s.Cache.MigrateContractStorage(from, to, height) }); p != nil {
		lc.report("migrate:panic", fmt.Sprint(p))
		return
	}
	if err != nil {
		lc.report("migrate:error", err.Error())
		return
	}
	for _, kv := range live {
		suffix := kv.K[21:]
		nk := rawKey(kvl.StoragePrefix, to, suffix)
		if len(lc.m.TxGet(nk)) != 0 {
			lc.count("migrate_overwrites_existing_target_key")
		}
		lc.m.Tx[nk] = kv.V
		lc.m.Tx[string(kv.K)] = nil
		lc.universe[nk] = true
		if s, ok := lc.srcOf[string(kv.K)]; ok {
			lc.srcOf[nk] = s
		} else {
			lc.srcOf[nk] = string(kv.K)
		}
	}
	lc.markGone(from, height)
	lc.gone[fromRole] = true
	lc.dest[toRole] = true
	delete(lc.dest, fromRole)
	lc.check("after-op")
}

func (lc *layoutCase) clean(role string, height uint32) {
	a := lc.addr[role]
	lc.opKind = "clean"
	lc.script = append(lc.script, fmt.Sprintf("CleanContractStorage(%s=%x, height=%d)", role, a[:], height))
	live := lc.shapeAtOp(a)
	if len(live) > 0 {
		lc.count("clean_with_live_keys")
	} else {
		lc.count("clean_with_no_live_keys")
	}
	var err error
	if p := vf.Catch(func() { err = lc.s.Cache.CleanContractStorage(a, height) }); p != nil {
		lc.report("clean:panic", fmt.Sprint(p))
		return
	}
	if err != nil {
		lc.report("clean:error", err.Error())
		return
	}
	for _, kv := range live {
		lc.m.Tx[string(kv.K)] = nil
	}
	lc.markGone(a, height)
	lc.gone[role] = true
	delete(lc.dest, role)
	lc.check("after-op")
}

func (lc *layoutCase) txCommit() {
	lc.script = append(lc.script, "tx.Commit()")
	lc.s.Cache.Commit()
	lc.m.CommitTx()
	lc.check("after-tx-commit")
}

func (lc *layoutCase) blockCommitFresh() {
	lc.script = append(lc.script, "overlay.CommitTo()+BatchCommit()")
	if err := lc.s.CommitOverlay(); err != nil {
		lc.report(lc.opKind+":block-commit-error", err.Error())
		return
	}
	lc.m.CommitOverlay()
	lc.check("after-block-commit")
	lc.script = append(lc.script, "fresh overlay + tx cache on the same store")
	lc.s.Fresh()
	lc.m.ClearOverlay()
	lc.m.ResetTx()
	lc.check("fresh-stack")
}

func pickHeight(rng *vf.RNG) uint32 {
	t := config.GetTrackDestroyedContractHeight()
	hs := []uint32{0, 1, t - 1, t - 1, t, t, t + 1, ^uint32(0), t + uint32(rng.Intn(1000000)), uint32(rng.Intn(int(t)))}
	return hs[rng.Intn(len(hs))]
}

func runLayoutCase(r *vf.Run, rng *vf.RNG, idx int) {
	lc := &layoutCase{r: r, rng: rng, idx: idx, addr: map[string]common.Address{}, roleOf: map[common.Address]string{},
		m: kvl.NewModel(), universe: map[string]bool{}, pattern: map[string]string{}, srcOf: map[string]string{},
		gone: map[string]bool{}, dest: map[string]bool{}, counters: map[string]int64{}}
	defer func() {
		for k, v := range lc.counters {
			r.Add(k, v)
		}
	}()

	// ---- addresses: A (old), B (migration target), C (second hop), neighbours N1..N3 of A
	var dcB *payload.DeployCode
	var a, b common.Address
	var kindA string
	if rng.Chance(25) { // B is the address of a real DeployCode that is registered like ContractMigrate does
		code := rng.Bytes(1 + rng.Intn(40))
		var err error
		dcB, err = payload.NewDeployCode(code, payload.NEOVM_TYPE, "n", "v", "a", "e", "d")
		if err != nil {
			r.Inconclusive("NewDeployCode: " + err.Error())
			return
		}
		b = dcB.Address()
		a, kindA = genAddr(rng)
		if rng.Bool() {
			if rng.Bool() {
				a, _ = succAddr(b)
				kindA = "succ_of_B"
				lc.count("target_is_pred_of_A")
			} else {
				a, _ = predAddr(b)
				kindA = "pred_of_B"
				lc.count("target_is_succ_of_A")
			}
		}
	} else {
		a, kindA = genAddr(rng)
		set := false
		switch c := rng.Intn(10); {
		case c < 3:
			if s, ok := succAddr(a); ok {
				b, set = s, true
				lc.count("target_is_succ_of_A")
			}
		case c < 6:
			if p, ok := predAddr(a); ok {
				b, set = p, true
				lc.count("target_is_pred_of_A")
			}
		case c < 7:
			b, set = a, true
			b[rng.Intn(20)] ^= byte(1 << uint(rng.Intn(8)))
		}
		if !set {
			copy(b[:], rng.Bytes(20))
		}
	}
	lc.count("addrA/" + kindA)
	lc.addRole("A", a)
	if !lc.addRole("B", b) {
		copy(b[:], rng.Bytes(20))
		lc.addRole("B", b)
		dcB = nil
	}
	var c common.Address
	copy(c[:], rng.Bytes(20))
	if rng.Chance(30) {
		if s, ok := succAddr(b); ok {
			c = s
		}
	}
	if !lc.addRole("C", c) {
		copy(c[:], rng.Bytes(20))
		lc.addRole("C", c)
	}
	nWanted := 1 + rng.Intn(3)
	for tries, n := 0, 0; n < nWanted && tries < 20; tries++ {
		nb := a
		kind := ""
		switch rng.Intn(6) {
		case 0, 1:
			if s, ok := succAddr(a); ok {
				nb, kind = s, "succ"
			}
		case 2, 3:
			if p, ok := predAddr(a); ok {
				nb, kind = p, "pred"
			}
		case 4:
			nb[19] = byte(rng.Intn(256))
			kind = "last_byte_differs"
		default:
			nb[rng.Intn(20)] ^= byte(1 << uint(rng.Intn(8)))
			kind = "one_bit_differs"
		}
		if kind != "" && lc.addRole(fmt.Sprintf("N%d", n+1), nb) {
			lc.count("neighbour/" + kind)
			n++
		}
	}

	// ---- key suffixes (0..40 bytes, sharing prefixes)
	nSuf := 1 + rng.Intn(10)
	seen := map[string]bool{}
	for tries := 0; len(lc.suffixes) < nSuf && tries < 10*nSuf; tries++ {
		var k []byte
		switch c := rng.Intn(10); {
		case c < 3 || len(lc.suffixes) == 0:
			for j := rng.Intn(4); j > 0; j-- {
				k = append(k, sufAlphabet[rng.Intn(len(sufAlphabet))])
			}
		case c < 7:
			k = append(k, lc.suffixes[rng.Intn(len(lc.suffixes))]...)
			ext := 1 + rng.Intn(2)
			if rng.Chance(15) {
				ext = rng.Intn(41)
			}
			for j := 0; j < ext && len(k) < 40; j++ {
				k = append(k, sufAlphabet[rng.Intn(len(sufAlphabet))])
			}
		case c < 9:
			k = append(k, lc.suffixes[rng.Intn(len(lc.suffixes))]...)
			if len(k) > 0 {
				k[len(k)-1] = sufAlphabet[rng.Intn(len(sufAlphabet))]
			}
		default:
			k = rng.Bytes(rng.Intn(41))
		}
		if !seen[string(k)] {
			seen[string(k)] = true
			lc.suffixes = append(lc.suffixes, k)
			switch {
			case len(k) == 0:
				lc.count("suffix/empty")
			case len(k) >= 32:
				lc.count("suffix/len_ge_32")
			}
		}
	}

	// ---- the layout
	pick := func(opts string, weights []int) byte {
		t := 0
		for _, w := range weights {
			t += w
		}
		x := rng.Intn(t)
		for i, w := range weights {
			if x < w {
				return opts[i]
			}
			x -= w
		}
		return opts[0]
	}
	placeStorage := func(role string, pct int) {
		for _, suf := range lc.suffixes {
			lc.universe[rawKey(kvl.StoragePrefix, lc.addr[role], suf)] = true
			if !rng.Chance(pct) {
				continue
			}
			p := pick("-v", []int{45, 55})
			o := pick("-vt", []int{40, 35, 25})
			x := pick("-vt", []int{40, 35, 25})
			if p == '-' && o == '-' && x == '-' {
				continue
			}
			lc.place(rawKey(kvl.StoragePrefix, lc.addr[role], suf), p, o, x, lc.newVal)
			if role == "A" {
				lc.count(fmt.Sprintf("layoutA/p=%c,o=%c,x=%c", p, o, x))
			}
		}
	}
	pctA := []int{100, 85, 85, 50, 0}[rng.Intn(5)]
	placeStorage("A", pctA)
	for _, role := range lc.roles {
		if strings.HasPrefix(role, "N") {
			placeStorage(role, 50)
		}
	}
	if rng.Chance(10) { // not reachable on a real chain (an undeployed address has no storage); tagged in the violation key
		lc.destPre = true
		lc.count("target_has_preexisting_storage")
		placeStorage("B", 30)
	}
	for _, suf := range lc.suffixes { // where migrated entries will land
		lc.universe[rawKey(kvl.StoragePrefix, lc.addr["B"], suf)] = true
		lc.universe[rawKey(kvl.StoragePrefix, lc.addr["C"], suf)] = true
	}
	// contract records (raw, in the lower layers) and a pre-existing destroyed marker on a neighbour
	dummy, _ := payload.NewDeployCode([]byte{0x51, byte(idx)}, payload.NEOVM_TYPE, "x", "1", "", "", "")
	placeRecord := func(raw string, val []byte, what string) {
		lc.universe[raw] = true
		if rng.Bool() {
			lc.m.Persist[raw] = val
			lc.pattern[raw] = "p=v,o=-,x=-"
			lc.layout = append(lc.layout, vf.Hex([]byte(raw))+" "+what+" in the persistent store")
		} else {
			lc.m.Overlay[raw] = val
			lc.pattern[raw] = "p=-,o=v,x=-"
			lc.layout = append(lc.layout, vf.Hex([]byte(raw))+" "+what+" in the block overlay")
		}
	}
	for _, role := range lc.roles {
		ra := lc.addr[role]
		lc.universe[rawKey(pfxContract, ra, nil)] = true
		lc.universe[rawKey(pfxDestroyed, ra, nil)] = true
		switch {
		case role == "A":
			placeRecord(rawKey(pfxContract, ra, nil), dummy.ToArray(), "contract record of A")
		case strings.HasPrefix(role, "N"):
			if rng.Chance(25) {
				lc.count("neighbour_already_destroyed")
				placeRecord(rawKey(pfxDestroyed, ra, nil), []byte{9, 0, 0, 0}, "destroyed marker of "+role)
			} else if rng.Chance(70) {
				lc.count("neighbour_deployed")
				placeRecord(rawKey(pfxContract, ra, nil), dummy.ToArray(), "contract record of "+role)
			}
		}
	}

	lc.s = kvl.AcquireStack()
	defer lc.s.Release()
	lc.beat = layerWatchdog.Begin(func() interface{} {
		return map[string]interface{}{"case": lc.idx, "addresses": lc.addrHex(), "layout": lc.layout, "script": lc.script, "phase": lc.phase,
			"stuck": "the last entry of script (or the state check after it) never returned"}
	})
	defer lc.beat.End()
	if err := lc.materialize(); err != nil {
		r.Inconclusive("cannot build layout: " + err.Error())
		return
	}
	lc.opKind = "layout"
	lc.check("before-op")

	// ---- the script
	liveA := len(lc.m.Live(kvl.LvCache, rawKey(kvl.StoragePrefix, lc.addr["A"], nil)))
	h1, h2 := pickHeight(rng), pickHeight(rng)
	between := func() {
		switch rng.Intn(3) {
		case 0:
			lc.count("chain/same_tx")
		case 1:
			lc.count("chain/after_tx_commit")
			lc.txCommit()
		default:
			lc.count("chain/in_next_block")
			lc.txCommit()
			lc.blockCommitFresh()
		}
	}
	registerB := func() {
		if dcB != nil { // ContractMigrate stores the new contract before moving the storage
			lc.script = append(lc.script, "PutContract(B)")
			lc.s.Cache.PutContract(dcB)
			lc.m.Tx[rawKey(pfxContract, lc.addr["B"], nil)] = dcB.ToArray()
			lc.count("target_contract_registered")
		}
	}
	kind := rng.Intn(10)
	switch {
	case kind < 3:
		lc.count("script/migrate")
		registerB()
		lc.migrate("A", "B", h1)
	case kind < 5:
		lc.count("script/clean")
		lc.clean("A", h1)
	case kind < 7:
		lc.count("script/migrate_then_migrate")
		registerB()
		lc.migrate("A", "B", h1)
		if !lc.failed {
			between()
			lc.migrate("B", "C", h2)
		}
	case kind < 9:
		lc.count("script/migrate_then_clean")
		registerB()
		lc.migrate("A", "B", h1)
		if !lc.failed {
			between()
			lc.clean("B", h2)
		}
	default:
		lc.count("script/migrate_then_tx_reset")
		registerB()
		lc.migrate("A", "B", h1)
		if !lc.failed {
			lc.script = append(lc.script, "tx.Reset()")
			lc.s.Cache.Reset()
			lc.m.ResetTx()
			lc.gone, lc.dest = map[string]bool{}, map[string]bool{}
			lc.opKind = "migrate-then-reset"
			lc.check("after-tx-reset")
		}
	}
	// ---- commit down the layers and look again on a fresh stack
	if !lc.failed {
		lc.txCommit()
	}
	if !lc.failed {
		lc.blockCommitFresh()
	}

	fp := ""
	if liveA > 0 {
		h := sha256.Sum256([]byte(strings.Join(lc.layout, "\n") + "|" + strings.Join(lc.script, "\n")))
		fp = vf.Hex(h[:10])
	}
	r.Eval(fp)
	if idx < 3 {
		r.Sample(map[string]interface{}{"case": idx, "addresses": lc.addrHex(), "layout": lc.layout, "script": lc.script})
	}
}

var layerWatchdog *kvl.Watchdog

// runStorageLayer is the storage-layer oracle of C44.
func runStorageLayer(r *vf.Run, rng *vf.RNG) {
	// main-net rules: destroyed-contract tracking starts at height 11 700 000, so both the
	// "tracking not yet active" and the "tracking active" behaviour are reachable by height.
	saved := config.DefConfig.P2PNode.NetworkId
	config.DefConfig.P2PNode.NetworkId = config.NETWORK_ID_MAIN_NET
	defer func() { config.DefConfig.P2PNode.NetworkId = saved }()
	if config.GetTrackDestroyedContractHeight() == 0 {
		r.Inconclusive("main-net destroyed-contract tracking height is 0: the 'tracking inactive' branch is unreachable")
	}

	layerWatchdog = kvl.NewWatchdog(r, 60*time.Second)
	n := vf.N(4000, 60000)
	vf.Parallel(n, runtime.NumCPU(), func(i int) { runLayoutCase(r, rng.Sub(uint64(i)), i) })
	layerWatchdog.Stop()
	kvl.ClosePool()

	for _, p := range []string{"-", "v"} {
		for _, o := range []string{"-", "v", "t"} {
			for _, x := range []string{"-", "v", "t"} {
				if p+o+x != "---" {
					r.Require(fmt.Sprintf("layoutA/p=%s,o=%s,x=%s", p, o, x), 20)
				}
			}
		}
	}
	for _, c := range kvl.JoinCases {
		r.Require("op_join_shape/"+c, 20)
	}
	for _, c := range []string{"op_source/tx_cache_only", "op_source/tx_cache_over_lower", "op_source/overlay_only", "op_source/overlay_over_persisted", "op_source/persisted_only",
		"op_source/tx_tombstone_hides_lower", "op_source/overlay_tombstone_hides_persisted",
		"migrate_with_live_keys", "clean_with_live_keys", "tracking_active", "tracking_inactive",
		"script/migrate", "script/clean", "script/migrate_then_migrate", "script/migrate_then_clean", "script/migrate_then_tx_reset",
		"chain/same_tx", "chain/after_tx_commit", "chain/in_next_block",
		"neighbour/succ", "neighbour/pred", "target_is_succ_of_A", "target_is_pred_of_A", "target_contract_registered",
		"neighbour_already_destroyed", "neighbour_deployed", "addrA/ends_ff", "addrA/all_ff", "addrA/ends_00", "suffix/empty", "suffix/len_ge_32"} {
		r.Require(c, 20)
	}
	r.Assume("storage layer: migration targets are never the source address and carry no destroyed marker (ContractMigrate refuses both before calling MigrateContractStorage)")
	r.Assume("only the presence of the destroyed marker is compared, not its bytes")
	r.Assume("a memory LevelDB whose keys were all deleted (verified by a full iteration) is reused for the next layout as if it were new")
}
