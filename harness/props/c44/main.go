// C44 — Contract migration and destruction move or remove all of its storage.
//
// Two oracles:
//   - runStorageLayer (layers.go): model-based check of MigrateContractStorage /
//     CleanContractStorage / destroyed-contract tracking on the real
//     CacheDB -> OverlayDB -> LevelDBStore stack with storage spread over all three layers.
//   - runVMLevel (vmlevel.go): NeoVM scenarios on a solo ledger (Contract.Migrate /
//     Contract.Destroy / redeploy / Storage.Put through the old context).
package main

import (
	"verifharness/lib/vf"
)

func main() {
	r := vf.NewRun("C44", "exploration",
		"storage layer: each case is a layout (contract A, migration targets B and C, 1..3 contracts whose address is a byte-neighbour of A; 1..10 key suffixes of 0..40 bytes sharing prefixes; every key placed in a random combination of persistent store / block overlay / tx cache incl. tombstones) followed by a script (migrate, clean, migrate+migrate, migrate+clean, migrate+tx reset; chained ops in the same tx, after a tx commit or in the next block) and the commit of the tx cache and of the overlay; distinct by (layout, script); non-trivial when A has at least one live key when the script starts")
	rng := vf.NewRNG(vf.Seed())

	runStorageLayer(r, rng.Sub(1))

	// ===================================================================================
	// HOOK: ledger-level NeoVM scenarios (deploy -> Storage.Put over several blocks ->
	// Contract.Migrate / Contract.Destroy -> redeploy / Storage.Put through the old
	// context).  Implemented in vmlevel.go; it must use r.Eval / r.Count / r.Require /
	// r.Violation like runStorageLayer does.
	// ===================================================================================
	runVMLevel(r, rng.Sub(2))

	r.Finish()
}
