package main

import (
	"verifharness/lib/vf"
)

// runVMLevel is the hook for the VM-level oracle of C44 (DESIGN.md §5, "Oracle (VM
// level)"): NeoVM scripts on a solo ledger that deploy a contract, fill its storage over
// several blocks, call Contract.Migrate / Contract.Destroy and then try Storage.Put/Get
// through the old context, a redeploy of the same code (Deploy tx and Contract.Create) and
// a migration to a destroyed address.
//
// STUB: intentionally does nothing yet.  The ledger-level scenarios are added here later;
// until then C44's verdict covers the storage layer only (see the assumption recorded by
// main through this function).
func runVMLevel(r *vf.Run, rng *vf.RNG) {
	_ = rng
	r.Assume("VM-level scenarios (Contract.Migrate/Destroy on a solo ledger, redeploy refusal) are not implemented yet: runVMLevel is a stub; this run decides the storage-layer half only")
}
