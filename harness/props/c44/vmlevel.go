package main

import (
	"bytes"
	"fmt"
	"os"
	"path/filepath"
	"sort"

	"github.com/ontio/ontology/common"
	"github.com/ontio/ontology/core/types"
	"github.com/ontio/ontology/smartcontract/event"
	"github.com/ontio/ontology/vm/neovm"
	"verifharness/lib/chain"
	"verifharness/lib/vf"
)

// multiContract is a deployable NeoVM contract dispatching on the integer on top of the stack:
//
//	1: Storage.Put(key, value)   stack [value, key, 1]
//	2: Storage.Delete(key)       stack [key, 2]
//	3: Contract.Destroy          stack [3]
//	4: Contract.Migrate(...)     stack [desc, email, author, version, name, vmtype, code, 4]
//	5: Destroy then Put in the same invocation   stack [value, key, 5]
//	6: Migrate then Put through the OLD context in the same invocation  stack [value, key, <migrate args>, 6]
func multiContract(salt byte) []byte {
	sys := func(n string) []byte { return chain.NewAsm().Syscall(n).Bytes() }
	cat := func(p ...[]byte) []byte { return bytes.Join(p, nil) }
	drop, ret := []byte{byte(neovm.DROP)}, []byte{byte(neovm.RET)}
	put := cat(sys("System.Storage.GetContext"), sys("System.Storage.Put"))
	bodies := [][]byte{
		cat(drop, put, ret),
		cat(drop, sys("System.Storage.GetContext"), sys("System.Storage.Delete"), ret),
		cat(drop, sys("System.Contract.Destroy"), ret),
		cat(drop, sys("Ontology.Contract.Migrate"), drop, ret),
		cat(drop, sys("System.Contract.Destroy"), put, ret),
		cat(drop, sys("Ontology.Contract.Migrate"), drop, put, ret),
	}
	code := chain.NewAsm().Push([]byte{salt, 0x44}).Op(neovm.DROP).Bytes()
	for i, b := range bodies {
		hdr := chain.NewAsm().Op(neovm.DUP).PushInt(int64(i + 1)).Op(neovm.NUMEQUAL).Bytes()
		off := 3 + len(b)
		hdr = append(hdr, byte(neovm.JMPIFNOT), byte(off), byte(off>>8))
		code = append(code, hdr...)
		code = append(code, b...)
	}
	return append(code, byte(neovm.RET))
}

func migrateArgs(a *chain.Asm, newCode []byte) {
	a.Push([]byte("d")).Push([]byte("e")).Push([]byte("a")).Push([]byte("1")).Push([]byte("n")).PushInt(1).Push(newCode)
}

// storageOf returns the live storage entries of a contract address from the committed state dump.
func storageOf(dump map[string]string, addr common.Address) map[string]string {
	out := map[string]string{}
	p := string(append([]byte{0x05}, addr[:]...))
	for k, v := range dump {
		if len(k) >= len(p) && k[:len(p)] == p {
			out[k[len(p):]] = v
		}
	}
	return out
}

func sameMap(a, b map[string]string) bool {
	if len(a) != len(b) {
		return false
	}
	for k, v := range a {
		if bv, ok := b[k]; !ok || bv != v {
			return false
		}
	}
	return true
}

// runVMLevel: ledger-level scenarios.  A contract is deployed, its storage filled over several blocks,
// then migrated or destroyed by a real transaction; afterwards the old address is attacked: calls
// through the old address, redeploy by a Deploy transaction and by Contract.Create, migration of a
// third contract TO the dead address.  After every block: every entry that was live under the old
// address is readable under the new one with the same value (migrate) / gone (destroy); nothing is ever
// live again under the old address and the old address has no contract.
func runVMLevel(r *vf.Run, rng *vf.RNG) {
	scratch := vf.Scratch("c44vm")
	defer os.RemoveAll(scratch)
	w := chain.NewWorld(fmt.Sprintf("c44-%d", vf.Seed()), 3)
	c, err := chain.NewSolo(filepath.Join(scratch, "l"), w.BK)
	if err != nil {
		panic(err)
	}
	defer c.Close()
	commit := func(txs []*types.Transaction) []*event.ExecuteNotify {
		b, err := c.MakeBlock(txs, 0)
		if err != nil {
			panic(err)
		}
		res, err := c.CommitExec(b)
		if err != nil {
			panic(fmt.Errorf("c44 vm-level: block rejected: %v", err))
		}
		return res.Notify
	}
	commit(w.FundingTxs())
	invoke := func(code []byte) *types.Transaction {
		mt := w.TB.Invoke(0, 90000000, code)
		chain.Sign(mt, w.Accts[0])
		return chain.Immutable(mt)
	}
	deployTx := func(code []byte) *types.Transaction {
		d, err := w.TB.Deploy(0, 30000000, code, "c44")
		if err != nil {
			panic(err)
		}
		chain.Sign(d, w.Accts[0])
		return chain.Immutable(d)
	}
	N := vf.N(60, 1500)
	for sc := 0; sc < N; sc++ {
		sub := rng.Sub(uint64(sc))
		salt := byte(sc % 250)
		gen := byte(sc / 250)
		xCode := multiContract(salt)
		xCode = append(chain.NewAsm().Push([]byte{gen, 0x01}).Op(neovm.DROP).Bytes(), xCode...)
		yCode := append(chain.NewAsm().Push([]byte{gen, 0x02}).Op(neovm.DROP).Bytes(), multiContract(salt)...)
		zCode := append(chain.NewAsm().Push([]byte{gen, 0x03}).Op(neovm.DROP).Bytes(), multiContract(salt)...)
		X, Y, Z := common.AddressFromVmCode(xCode), common.AddressFromVmCode(yCode), common.AddressFromVmCode(zCode)
		model := map[string][]byte{} // expected storage of X: last successful put per key
		type putRec struct {
			hash     common.Uint256
			key, val []byte
		}
		var pending []putRec
		putTx := func(target common.Address, k, v []byte) *types.Transaction {
			t := invoke(chain.NewAsm().Push(v).Push(k).PushInt(1).AppCall(target).Bytes())
			if target == X {
				pending = append(pending, putRec{t.Hash(), k, v})
			}
			return t
		}
		settle := func(notes []*event.ExecuteNotify) {
			ok := map[common.Uint256]bool{}
			for _, n := range notes {
				ok[n.TxHash] = n.State == event.CONTRACT_STATE_SUCCESS
			}
			for _, p := range pending {
				if ok[p.hash] {
					model[string(p.key)] = p.val
				}
			}
			pending = nil
		}
		id := map[string]interface{}{"scenario": sc, "X": X.ToHexString(), "Y": Y.ToHexString()}
		steps := []string{}
		id["steps"] = &steps
		// --- fill: deploy X and Z, put keys over several blocks (values are storage items: compare raw dump values)
		txs := []*types.Transaction{deployTx(xCode), deployTx(zCode)}
		nk := 1 + sub.Intn(8)
		var keys [][]byte
		for i := 0; i < nk; i++ {
			k := append([]byte("k"), sub.Bytes(sub.Intn(20))...)
			keys = append(keys, k)
		}
		blocks := 1 + sub.Intn(3)
		for b := 0; b < blocks; b++ {
			for _, k := range keys {
				if sub.Chance(60) {
					txs = append(txs, putTx(X, k, sub.Bytes(1+sub.Intn(12))))
				}
			}
			if b == blocks-1 && sub.Chance(50) {
				break // the killing transaction goes into the same block as the last puts
			}
			settle(commit(txs))
			txs = nil
		}
		mode := []string{"destroy", "migrate", "destroy+put-same-invocation", "migrate+put-old-context-same-invocation"}[sub.Intn(4)]
		steps = append(steps, fmt.Sprintf("deploy X,Z; %d keys over %d blocks; then %s", nk, blocks, mode))
		var kill *types.Transaction
		switch mode {
		case "destroy":
			kill = invoke(chain.NewAsm().PushInt(3).AppCall(X).Bytes())
		case "migrate":
			a := chain.NewAsm()
			migrateArgs(a, yCode)
			kill = invoke(a.PushInt(4).AppCall(X).Bytes())
		case "destroy+put-same-invocation":
			kill = invoke(chain.NewAsm().Push([]byte("zombie")).Push([]byte("Zkey")).PushInt(5).AppCall(X).Bytes())
		default:
			a := chain.NewAsm().Push([]byte("zombie")).Push([]byte("Zkey"))
			migrateArgs(a, yCode)
			kill = invoke(a.PushInt(6).AppCall(X).Bytes())
		}
		txs = append(txs, kill)
		notes := commit(txs)
		settle(notes[:len(notes)-1])
		killed := notes[len(notes)-1].State == event.CONTRACT_STATE_SUCCESS
		if notes[len(notes)-1].TxHash != kill.Hash() {
			panic("c44 vm-level: last notification is not the killing transaction's")
		}
		_, _, dump := c.DumpState()
		if !killed {
			// the killing transaction failed as a whole (e.g. Put through a context whose contract is gone):
			// then nothing of it may have survived — X still lives with its storage
			r.Count("vm/kill_tx_failed/" + mode)
			if cs, _ := c.Ledger.GetContractState(X); cs == nil {
				r.Violation("vm:failed-kill-transaction-removed-contract:"+mode, "X has no contract state after a FAILED transaction", id)
			}
			if _, ok := storageOf(dump, X)["Zkey"]; ok {
				r.Violation("vm:failed-kill-transaction-left-storage:"+mode, "zombie key present", id)
			}
			r.Eval(fmt.Sprintf("vm/%s/failed/%d", mode, nk))
			continue
		}
		r.Count("vm/killed/" + mode)
		oldLive := storageOf(dump, X)
		zombie := false
		if _, ok := oldLive["Zkey"]; ok {
			// the write issued AFTER Destroy/Migrate inside the killing invocation took effect: reported under
			// its own key, once per scenario; every other live entry is reported by the generic clauses
			zombie = true
			delete(oldLive, "Zkey")
			r.Violation("vm:put-through-dead-context-in-killing-invocation-took-effect:"+mode,
				"Storage.Put issued after the contract destroyed/migrated itself succeeded; its entry is live under the dead address", id)
		}
		if len(oldLive) != 0 {
			r.Violation("vm:live-key-under-dead-address:"+mode+":right-after", fmt.Sprintf("%d keys still live under the old address", len(oldLive)), id)
		}
		if cs, _ := c.Ledger.GetContractState(X); cs != nil {
			r.Violation("vm:dead-address-still-has-contract:"+mode, "GetContractState(X) != nil", id)
		}
		expectY := map[string]string{}
		if mode == "migrate" {
			if cs, _ := c.Ledger.GetContractState(Y); cs == nil {
				r.Violation("vm:migration-target-has-no-contract", "GetContractState(Y) == nil", id)
			}
			// every key put into X must be readable under Y with the last value written
			last := model
			got := storageOf(dump, Y)
			for k, v := range last {
				gv, ok := got[k]
				if !ok || !bytes.HasSuffix([]byte(gv), v) {
					r.Violation("vm:migrated-entry-missing-or-changed", fmt.Sprintf("key %x under Y: present=%v", k, ok), id)
				}
			}
			if len(got) != len(last) {
				r.Violation("vm:migrated-entry-count", fmt.Sprintf("Y holds %d entries, X had %d", len(got), len(last)), id)
			}
			expectY = got
			r.Count("vm/migrated_entries_checked")
		}
		// --- attacks on the dead address, over 2 further blocks
		for round := 0; round < 2; round++ {
			var atk []*types.Transaction
			atk = append(atk, putTx(X, []byte("again"), []byte("v"))) // call through the old address
			atk = append(atk, deployTx(xCode))                        // redeploy by Deploy transaction
			ca := chain.NewAsm()
			migrateArgs(ca, xCode)
			atk = append(atk, invoke(ca.Syscall("Ontology.Contract.Create").Op(neovm.DROP).Bytes())) // redeploy by Contract.Create
			ma := chain.NewAsm()
			migrateArgs(ma, xCode)
			atk = append(atk, invoke(ma.PushInt(4).AppCall(Z).Bytes())) // migrate a third contract TO the dead address
			if mode == "migrate" {
				atk = append(atk, putTx(Y, []byte("fresh"), []byte{byte(round)})) // the new incarnation keeps working
				expectY["fresh"] = ""
			}
			commit(atk)
			_, _, dump = c.DumpState()
			l := storageOf(dump, X)
			if zombie {
				delete(l, "Zkey")
			}
			if len(l) != 0 {
				ks := []string{}
				for k := range l {
					ks = append(ks, fmt.Sprintf("%x", k))
				}
				sort.Strings(ks)
				r.Violation("vm:live-key-under-dead-address:"+mode+":after-attacks", fmt.Sprintf("keys %v", ks), id)
			}
			if cs, _ := c.Ledger.GetContractState(X); cs != nil {
				r.Violation("vm:dead-address-redeployed:"+mode, "GetContractState(X) != nil after redeploy attempts", id)
			}
			if mode == "migrate" {
				got := storageOf(dump, Y)
				for k := range expectY {
					if _, ok := got[k]; !ok {
						r.Violation("vm:new-incarnation-lost-entry", fmt.Sprintf("key %x", k), id)
					}
				}
			}
			if cs, _ := c.Ledger.GetContractState(Z); cs == nil {
				r.Violation("vm:third-contract-vanished-after-migrate-to-dead-address", "Z has no contract state", id)
			}
			r.Count("vm/attack_rounds")
		}
		r.Eval(fmt.Sprintf("vm/%s/%d/%d", mode, nk, blocks))
		if sc < 3 {
			r.Sample(map[string]interface{}{"vm_scenario": sc, "mode": mode, "keys": nk, "fill_blocks": blocks})
		}
	}
	for _, m := range []string{"destroy", "migrate"} {
		r.Require("vm/killed/"+m, 5)
	}
	r.Require("vm/attack_rounds", 20)
	r.Require("vm/migrated_entries_checked", 5)
	for _, m := range []string{"destroy+put-same-invocation", "migrate+put-old-context-same-invocation"} {
		if r.Counter("vm/killed/"+m)+r.Counter("vm/kill_tx_failed/"+m) < 2 {
			r.Require("vm/killed/"+m, 2)
		}
	}
	r.Assume("VM level runs on a solo ledger, where destroyed-contract tracking is active from height 0")
}
