// C45 — Only an ONT ID's authorized keys or controllers can change it.
//
// Model-based authorization-soundness exploration: generated operation histories over four
// identities are executed as real signed invoke transactions (one per block) on a solo
// ledger; a reference model of identities / keys / controllers / recovery decides whether
// the transaction's signer set may change the identity at all.  A call that succeeds while
// the model says "not authorised" is a violation; so is any change of committed state by a
// failed call, any success on a revoked identity, and any disagreement between the
// contract's query methods and the model after a successful call.
package main

import (
	"fmt"
	"os"
	"path/filepath"
	"runtime"
	"sort"
	"sync"

	"github.com/ontio/ontology/common"
	"github.com/ontio/ontology/core/types"
	"verifharness/lib/chain"
	"verifharness/lib/iddrv"
	"verifharness/lib/txgen"
	"verifharness/lib/vf"
)

const nIDs = 4

type hist struct {
	idx   int
	rng   *vf.RNG
	ids   []string
	pool  []*txgen.Key
	next  int
	m     *iddrv.Model
	env   *iddrv.Env
	log   []map[string]interface{}
	short []string
}

func (h *hist) fresh() *txgen.Key {
	if h.next < len(h.pool) {
		h.next++
		return h.pool[h.next-1]
	}
	return h.pool[h.rng.Intn(len(h.pool))]
}

// ---------------------------------------------------------------- helpers over a (possibly ghost) state

type keyPick struct {
	idx uint32
	key *txgen.Key
}

func liveAuth(s *iddrv.IDState) (out []keyPick) {
	for i, k := range s.Keys {
		if !k.Revoked && k.Auth && k.Key != nil {
			out = append(out, keyPick{uint32(i + 1), k.Key})
		}
	}
	return
}
func revokedKeys(s *iddrv.IDState) (out []keyPick) {
	for i, k := range s.Keys {
		if k.Revoked && k.Key != nil {
			out = append(out, keyPick{uint32(i + 1), k.Key})
		}
	}
	return
}
func noAuthKeys(s *iddrv.IDState) (out []keyPick) {
	for i, k := range s.Keys {
		if !k.Revoked && !k.Auth && k.Key != nil {
			out = append(out, keyPick{uint32(i + 1), k.Key})
		}
	}
	return
}
func liveKeys(s *iddrv.IDState) (out []keyPick) {
	for i, k := range s.Keys {
		if !k.Revoked && k.Key != nil {
			out = append(out, keyPick{uint32(i + 1), k.Key})
		}
	}
	return
}

func (h *hist) pick(l []keyPick) keyPick { return l[h.rng.Intn(len(l))] }

// view returns the state used to build plausible arguments: the live state, or for a
// revoked identity the state it had just before revocation.
func (h *hist) view(id string) *iddrv.IDState {
	s := h.m.St(id)
	if s.State == iddrv.Revoked && s.Ghost != nil {
		return s.Ghost
	}
	return s
}

// validOthers lists valid identities (other than id) that own a live auth key.
func (h *hist) validOthers(id string) []string {
	var out []string
	for _, o := range h.ids {
		if o != id && h.m.IsValid(o) && len(liveAuth(h.m.St(o))) > 0 {
			out = append(out, o)
		}
	}
	return out
}

// outsider is a signer that has no authority over id: a live auth key of another
// identity when there is one (and it is not id's controller / recovery member), else a fresh key.
func (h *hist) outsider(id string) *txgen.Key {
	s := h.view(id)
	related := map[string]bool{}
	if s.Ctrl != nil {
		if s.Ctrl.Group != nil {
			for _, x := range s.Ctrl.Group.IDs() {
				related[x] = true
			}
		} else {
			related[s.Ctrl.Single] = true
		}
	}
	if s.RecGroup != nil {
		for _, x := range s.RecGroup.IDs() {
			related[x] = true
		}
	}
	var cands []string
	for _, o := range h.validOthers(id) {
		if !related[o] {
			cands = append(cands, o)
		}
	}
	if len(cands) > 0 && h.rng.Chance(70) {
		return h.pick(liveAuth(h.m.St(cands[h.rng.Intn(len(cands))]))).key
	}
	return h.fresh()
}

func (h *hist) randomGroup(id string, allowBad bool) *iddrv.Group {
	others := h.validOthers(id)
	if allowBad && h.rng.Chance(8) {
		others = append(others, iddrv.DetID(fmt.Sprintf("ghost-member-%d", h.rng.Intn(1000))))
	}
	if h.rng.Chance(10) && h.m.IsValid(id) && len(h.m.St(id).Keys) > 0 {
		others = append(others, id)
	}
	if len(others) == 0 {
		return nil
	}
	perm := h.rng.Perm(len(others))
	n := h.rng.Range(1, len(others))
	if n > 3 {
		n = 3
	}
	g := &iddrv.Group{}
	for _, i := range perm[:n] {
		g.Members = append(g.Members, iddrv.Member{ID: others[i]})
	}
	g.Threshold = h.rng.Range(1, n)
	if n == 3 && h.rng.Chance(70) {
		g.Threshold = 2 // the 2-of-3 shape
	}
	// nested shape: [a, {b, c; 1}] threshold 2
	if n == 3 && h.rng.Chance(25) {
		g = &iddrv.Group{Members: []iddrv.Member{g.Members[0], {Sub: &iddrv.Group{Members: g.Members[1:], Threshold: 1}}}, Threshold: 2}
	}
	return g
}

// groupProof builds the signer list / tx signer set for a group authority by class.
func (h *hist) groupProof(id string, g *iddrv.Group, class string) (proof []iddrv.SignerRef, signers []*txgen.Key, realised string) {
	type cand struct {
		id string
		kp keyPick
	}
	var members []cand
	for _, mid := range g.IDs() {
		if la := liveAuth(h.m.St(mid)); len(la) > 0 {
			members = append(members, cand{mid, h.pick(la)})
		}
	}
	// minimal satisfying subset: greedy over the flattened members until the model's
	// list-threshold holds
	satisfy := func(limit int) []cand {
		var chosen []cand
		for _, i := range h.rng.Perm(len(members)) {
			if limit >= 0 && len(chosen) >= limit {
				break
			}
			chosen = append(chosen, members[i])
			var p []iddrv.SignerRef
			for _, c := range chosen {
				p = append(p, iddrv.SignerRef{ID: c.id, Index: c.kp.idx})
			}
			if limit < 0 && thresholdMet(g, p) {
				break
			}
		}
		return chosen
	}
	emitAll := func(cs []cand) {
		for _, c := range cs {
			proof = append(proof, iddrv.SignerRef{ID: c.id, Index: c.kp.idx})
			signers = append(signers, c.kp.key)
		}
	}
	realised = class
	switch class {
	case "right", "right+extra":
		emitAll(satisfy(-1))
		if class == "right+extra" {
			signers = append(signers, h.fresh())
		}
	case "all-members":
		emitAll(members)
	case "below-threshold":
		cs := satisfy(-1)
		if len(cs) > 0 {
			cs = cs[:len(cs)-1]
		}
		emitAll(cs)
	case "listed-not-signed":
		cs := satisfy(-1)
		emitAll(cs)
		if len(signers) > 0 {
			signers = signers[:len(signers)-1]
		}
	case "non-member":
		k := h.outsider(id)
		o := iddrv.DetID("nobody")
		for _, x := range h.validOthers(id) {
			if !contains(g.IDs(), x) {
				o = x
			}
		}
		for range g.Members {
			proof = append(proof, iddrv.SignerRef{ID: o, Index: 1})
		}
		signers = append(signers, k)
	case "revoked-member-key":
		cs := satisfy(-1)
		done := false
		for _, c := range cs {
			if rk := revokedKeys(h.m.St(c.id)); !done && len(rk) > 0 {
				kp := h.pick(rk)
				proof = append(proof, iddrv.SignerRef{ID: c.id, Index: kp.idx})
				signers = append(signers, kp.key)
				done = true
				continue
			}
			proof = append(proof, iddrv.SignerRef{ID: c.id, Index: c.kp.idx})
			signers = append(signers, c.kp.key)
		}
		if !done {
			realised = "right"
		}
	case "self-key":
		la := liveAuth(h.view(id))
		emitAll(nil)
		if len(la) > 0 {
			kp := h.pick(la)
			proof = append(proof, iddrv.SignerRef{ID: id, Index: kp.idx})
			signers = append(signers, kp.key)
		} else {
			signers = append(signers, h.outsider(id))
		}
	case "empty":
		cs := satisfy(-1)
		for _, c := range cs {
			proof = append(proof, iddrv.SignerRef{ID: c.id, Index: c.kp.idx})
		}
	default: // "other"
		cs := satisfy(-1)
		for _, c := range cs {
			proof = append(proof, iddrv.SignerRef{ID: c.id, Index: c.kp.idx})
		}
		signers = append(signers, h.outsider(id))
		realised = "other"
	}
	return
}

func thresholdMet(g *iddrv.Group, proof []iddrv.SignerRef) bool {
	n := 0
	for _, mb := range g.Members {
		if mb.Sub != nil {
			if thresholdMet(mb.Sub, proof) {
				n++
			}
			continue
		}
		for _, p := range proof {
			if p.ID == mb.ID {
				n++
				break
			}
		}
	}
	return n >= g.Threshold
}

func contains(l []string, x string) bool {
	for _, y := range l {
		if y == x {
			return true
		}
	}
	return false
}

var idxClasses = []string{"right", "right", "right", "right", "right", "right+extra", "revoked", "noauth", "other", "ctrl-key-for-self-op", "empty", "bad-index", "mismatched-index"}
var pubClasses = []string{"right", "right", "right", "right", "right", "right+extra", "revoked", "noauth", "other", "right-key-other-signer", "empty", "address-form", "old-recovery"}
var grpClasses = []string{"right", "right", "right", "right", "right+extra", "all-members", "below-threshold", "listed-not-signed", "non-member", "revoked-member-key", "self-key", "empty", "other"}
var singleCtrlClasses = []string{"right", "right", "right", "right", "right+extra", "revoked", "noauth", "other", "self-key", "empty", "bad-index"}

// byIndex fills Index/Signers for an authority checked through a key index of `owner`.
func (h *hist) byIndex(op *iddrv.Op, owner string, target string, class string) {
	s := h.view(owner)
	la := liveAuth(s)
	op.Class = class
	right := keyPick{1, nil}
	if len(la) > 0 {
		right = h.pick(la)
	}
	fallbackOther := func() {
		op.Class = "other"
		op.Index = right.idx
		op.Signers = []*txgen.Key{h.outsider(target)}
	}
	switch class {
	case "right", "right+extra":
		if right.key == nil {
			op.Class = "no-usable-key"
			op.Index = 1
			op.Signers = []*txgen.Key{h.outsider(target)}
			return
		}
		op.Index = right.idx
		op.Signers = []*txgen.Key{right.key}
		if class == "right+extra" {
			op.Signers = append(op.Signers, h.fresh())
		}
	case "revoked":
		if rk := revokedKeys(s); len(rk) > 0 {
			kp := h.pick(rk)
			op.Index, op.Signers = kp.idx, []*txgen.Key{kp.key}
		} else {
			fallbackOther()
		}
	case "noauth":
		if nk := noAuthKeys(s); len(nk) > 0 {
			kp := h.pick(nk)
			op.Index, op.Signers = kp.idx, []*txgen.Key{kp.key}
		} else {
			fallbackOther()
		}
	case "ctrl-key-for-self-op":
		ts := h.view(target)
		var ks []*txgen.Key
		if ts.Ctrl != nil && owner == target {
			ids := []string{ts.Ctrl.Single}
			if ts.Ctrl.Group != nil {
				ids = ts.Ctrl.Group.IDs()
			}
			for _, c := range ids {
				if l := liveAuth(h.m.St(c)); len(l) > 0 {
					ks = append(ks, h.pick(l).key)
				}
			}
		}
		if len(ks) == 0 {
			fallbackOther()
			return
		}
		op.Index, op.Signers = right.idx, ks
	case "self-key": // controller path asked with the controlled identity's own key
		ts := h.view(target)
		if l := liveAuth(ts); len(l) > 0 {
			kp := h.pick(l)
			op.Index, op.Signers = kp.idx, []*txgen.Key{kp.key}
		} else {
			fallbackOther()
		}
	case "empty":
		op.Index, op.Signers = right.idx, nil
	case "bad-index":
		op.Index = uint32(len(s.Keys) + 1)
		if h.rng.Chance(30) {
			op.Index = 0
		}
		if h.rng.Chance(10) {
			op.Index = 0xffffffff
		}
		if right.key != nil {
			op.Signers = []*txgen.Key{right.key}
		} else {
			op.Signers = []*txgen.Key{h.outsider(target)}
		}
	case "mismatched-index":
		if len(la) >= 2 {
			p := h.rng.Perm(len(la))
			op.Index, op.Signers = la[p[0]].idx, []*txgen.Key{la[p[1]].key}
		} else {
			fallbackOther()
		}
	default:
		fallbackOther()
	}
}

func (h *hist) byOperator(op *iddrv.Op, class string) {
	s := h.view(op.ID)
	la := liveAuth(s)
	op.Class = class
	var right *txgen.Key
	if len(la) > 0 {
		right = h.pick(la).key
	}
	other := func() {
		k := h.outsider(op.ID)
		op.Class, op.Operator, op.Signers = "other", k.PubBytes(), []*txgen.Key{k}
	}
	switch class {
	case "right", "right+extra":
		if right == nil {
			k := h.outsider(op.ID)
			op.Class, op.Operator, op.Signers = "no-usable-key", k.PubBytes(), []*txgen.Key{k}
			return
		}
		op.Operator, op.Signers = right.PubBytes(), []*txgen.Key{right}
		if class == "right+extra" {
			op.Signers = append(op.Signers, h.fresh())
		}
	case "revoked":
		if rk := revokedKeys(s); len(rk) > 0 {
			k := h.pick(rk).key
			op.Operator, op.Signers = k.PubBytes(), []*txgen.Key{k}
		} else {
			other()
		}
	case "noauth":
		if nk := noAuthKeys(s); len(nk) > 0 {
			k := h.pick(nk).key
			op.Operator, op.Signers = k.PubBytes(), []*txgen.Key{k}
		} else {
			other()
		}
	case "right-key-other-signer":
		if right == nil {
			other()
			return
		}
		op.Operator, op.Signers = right.PubBytes(), []*txgen.Key{h.outsider(op.ID)}
	case "empty":
		if right == nil {
			other()
			op.Signers = nil
			op.Class = "empty"
			return
		}
		op.Operator, op.Signers = right.PubBytes(), nil
	case "address-form":
		if right == nil {
			other()
			return
		}
		a := right.Address()
		op.Operator, op.Signers = a[:], []*txgen.Key{right}
	case "old-recovery":
		if s.RecKind == iddrv.RecOld && s.RecKey != nil {
			op.Operator, op.Signers = s.RecAddr[:], []*txgen.Key{s.RecKey}
		} else {
			k := h.fresh()
			a := k.Address()
			op.Class, op.Operator, op.Signers = "address-of-stranger", a[:], []*txgen.Key{k}
		}
	default:
		other()
	}
}

func (h *hist) byController(op *iddrv.Op) {
	s := h.view(op.ID)
	if s.Ctrl == nil {
		// no controller configured: present a plausible single proof by an outsider
		op.Class = "no-controller"
		op.ProofSingle = true
		op.Index = 1
		if l := liveAuth(s); len(l) > 0 && h.rng.Chance(50) {
			kp := h.pick(l)
			op.Index, op.Signers = kp.idx, []*txgen.Key{kp.key}
			op.Class = "no-controller/self-key"
		} else {
			op.Signers = []*txgen.Key{h.outsider(op.ID)}
		}
		return
	}
	if s.Ctrl.Group != nil {
		class := grpClasses[h.rng.Intn(len(grpClasses))]
		op.Proof, op.Signers, op.Class = h.groupProof(op.ID, s.Ctrl.Group, class)
		if op.Proof == nil {
			op.Proof = []iddrv.SignerRef{}
		}
		op.Class = "group:" + op.Class
		return
	}
	op.ProofSingle = true
	class := singleCtrlClasses[h.rng.Intn(len(singleCtrlClasses))]
	h.byIndex(op, s.Ctrl.Single, op.ID, class)
	op.Class = "single:" + op.Class
}

func (h *hist) byRecovery(op *iddrv.Op) {
	s := h.view(op.ID)
	if s.RecKind != iddrv.RecNew {
		op.Class = "no-group-recovery"
		op.Proof = []iddrv.SignerRef{}
		if l := liveAuth(s); len(l) > 0 {
			kp := h.pick(l)
			op.Proof = []iddrv.SignerRef{{ID: op.ID, Index: kp.idx}}
			op.Signers = []*txgen.Key{kp.key}
		} else {
			op.Signers = []*txgen.Key{h.outsider(op.ID)}
		}
		return
	}
	class := grpClasses[h.rng.Intn(len(grpClasses))]
	op.Proof, op.Signers, op.Class = h.groupProof(op.ID, s.RecGroup, class)
	if op.Proof == nil {
		op.Proof = []iddrv.SignerRef{}
	}
	op.Class = "group:" + op.Class
}

var attrKeys = []string{"a0", "a1", "a2", "a3", "a4", "a5"}
var svcIDs = []string{"s0", "s1", "s2", "s3"}
var ctxs = []string{"ctx0", "ctx1", "ctx2", "https://www.w3.org/ns/did/v1"}

func (h *hist) someAttrs() []iddrv.Attr {
	n := h.rng.Range(1, 3)
	var out []iddrv.Attr
	for i := 0; i < n; i++ {
		out = append(out, iddrv.Attr{Key: []byte(attrKeys[h.rng.Intn(len(attrKeys))]), Type: []byte("string"), Value: h.rng.Bytes(h.rng.Range(0, 12))})
	}
	return out
}

func (h *hist) somePath(s *iddrv.IDState) []byte {
	var have []string
	for k := range s.Attrs {
		have = append(have, k)
	}
	sort.Strings(have)
	if len(have) > 0 && h.rng.Chance(80) {
		return []byte(have[h.rng.Intn(len(have))])
	}
	return []byte(attrKeys[h.rng.Intn(len(attrKeys))])
}

func (h *hist) targetIndex(s *iddrv.IDState, wantAuth int) uint32 {
	// wantAuth: 1 prefer keys with auth (to remove it), 0 prefer keys without, -1 any live key
	var cands []uint32
	for i, k := range s.Keys {
		if k.Revoked {
			continue
		}
		if wantAuth == -1 || (wantAuth == 1) == k.Auth {
			cands = append(cands, uint32(i+1))
		}
	}
	p := h.rng.Intn(100)
	switch {
	case p < 75 && len(cands) > 0:
		return cands[h.rng.Intn(len(cands))]
	case p < 85 && len(s.Keys) > 0:
		return uint32(1 + h.rng.Intn(len(s.Keys)))
	case p < 93:
		return uint32(len(s.Keys) + 1)
	default:
		if l := liveKeys(s); len(l) > 0 {
			return h.pick(l).idx
		}
		return 1
	}
}

// build constructs a call of method on id.
func (h *hist) build(method, id string) *iddrv.Op {
	op := &iddrv.Op{Method: method, ID: id}
	s := h.view(id)
	kind := iddrv.KindOf(method)

	// ---- authority part
	switch kind {
	case iddrv.KReg:
		k := h.fresh()
		if s.State != iddrv.NotExist && len(liveKeys(s)) > 0 && h.rng.Chance(50) {
			k = h.pick(liveKeys(s)).key // re-registration with a formerly valid key
		}
		op.Pub, op.PubKey = k.PubBytes(), k
		switch p := h.rng.Intn(100); {
		case p < 70:
			op.Class, op.Signers = "right", []*txgen.Key{k}
		case p < 80:
			op.Class, op.Signers = "right+extra", []*txgen.Key{h.fresh(), k}
		case p < 92:
			op.Class, op.Signers = "other", []*txgen.Key{h.outsider(id)}
		default:
			op.Class, op.Signers = "empty", nil
		}
		if method == "regIDWithAttributes" {
			op.Attrs = h.someAttrs()
		}
		return op
	case iddrv.KRegCtrl:
		others := h.validOthers(id)
		if len(others) == 0 {
			op.CtrlID = iddrv.DetID("unregistered-controller")
			op.Index = 1
			op.Class, op.Signers = "unregistered-controller", []*txgen.Key{h.fresh()}
			return op
		}
		if h.rng.Chance(50) {
			if g := h.randomGroup(id, false); g != nil {
				op.Group = g
				class := grpClasses[h.rng.Intn(len(grpClasses))]
				op.Proof, op.Signers, op.Class = h.groupProof(id, g, class)
				if op.Proof == nil {
					op.Proof = []iddrv.SignerRef{}
				}
				op.Class = "group:" + op.Class
				return op
			}
		}
		op.CtrlID = others[h.rng.Intn(len(others))]
		class := singleCtrlClasses[h.rng.Intn(len(singleCtrlClasses))]
		h.byIndex(op, op.CtrlID, id, class)
		op.Class = "single:" + op.Class
		return op
	case iddrv.KIdx, iddrv.KNever:
		h.byIndex(op, id, id, idxClasses[h.rng.Intn(len(idxClasses))])
	case iddrv.KPub:
		c := pubClasses[h.rng.Intn(len(pubClasses))]
		if c == "old-recovery" {
			c = "other"
		}
		h.byOperator(op, c)
	case iddrv.KPubRec:
		c := pubClasses[h.rng.Intn(len(pubClasses))]
		if s.RecKind == iddrv.RecOld && h.rng.Chance(40) {
			c = "old-recovery"
		}
		h.byOperator(op, c)
	case iddrv.KOldRec:
		k := h.fresh()
		op.Addr, op.RecKey = k.Address(), k
		if s.RecKind == iddrv.RecOld {
			op.OldAddr = s.RecAddr
			switch p := h.rng.Intn(100); {
			case p < 55 && s.RecKey != nil:
				op.Class, op.Signers = "right", []*txgen.Key{s.RecKey}
			case p < 70:
				op.Class, op.Signers = "other", []*txgen.Key{h.outsider(id)}
			case p < 80:
				op.Class = "self-key"
				if l := liveAuth(s); len(l) > 0 {
					op.Signers = []*txgen.Key{h.pick(l).key}
				}
			case p < 90:
				op.Class, op.Signers = "empty", nil
			default: // claims to be some other recovery address and signs as it
				o := h.fresh()
				op.Class, op.OldAddr, op.Signers = "wrong-old-address", o.Address(), []*txgen.Key{o}
			}
		} else {
			o := h.fresh()
			op.Class, op.OldAddr, op.Signers = "no-old-recovery", o.Address(), []*txgen.Key{o}
		}
	case iddrv.KCtrl:
		h.byController(op)
	case iddrv.KRec:
		h.byRecovery(op)
	}

	// ---- method arguments
	switch method {
	case "addKey", "addKeyByIndex", "addKeyByController", "addKeyByRecovery",
		"addNewAuthKey", "addNewAuthKeyByRecovery", "addNewAuthKeyByController":
		k := h.fresh()
		if h.rng.Chance(8) && len(s.Keys) > 0 {
			kr := s.Keys[h.rng.Intn(len(s.Keys))]
			if kr.Key != nil {
				k = kr.Key // duplicate
			}
		}
		if h.rng.Chance(6) { // a key that also belongs to another identity
			if o := h.validOthers(id); len(o) > 0 {
				k = h.pick(liveAuth(h.m.St(o[0]))).key
			}
		}
		op.Pub, op.PubKey = k.PubBytes(), k
		if h.rng.Chance(25) {
			op.KeyCtrl = []byte(h.ids[h.rng.Intn(len(h.ids))])
		}
	case "removeKey", "removeKeyByIndex":
		lk := liveKeys(s)
		switch p := h.rng.Intn(100); {
		case p < 80 && len(lk) > 0:
			// prefer not to remove the key that signs
			kp := h.pick(lk)
			for try := 0; try < 3 && len(op.Signers) > 0 && kp.key == op.Signers[0] && len(lk) > 1; try++ {
				kp = h.pick(lk)
			}
			op.Pub, op.PubKey = kp.key.PubBytes(), kp.key
		case p < 90 && len(revokedKeys(s)) > 0:
			k := h.pick(revokedKeys(s)).key
			op.Pub, op.PubKey = k.PubBytes(), k
		default:
			k := h.fresh()
			op.Pub, op.PubKey = k.PubBytes(), k
		}
	case "removeKeyByController", "removeKeyByRecovery":
		op.Target = h.targetIndex(s, -1)
	case "setAuthKey", "setAuthKeyByRecovery", "setAuthKeyByController":
		op.Target = h.targetIndex(s, 0)
	case "removeAuthKey", "removeAuthKeyByRecovery", "removeAuthKeyByController":
		op.Target = h.targetIndex(s, 1)
	case "addAttributes", "addAttributesByIndex", "addAttributesByController":
		op.Attrs = h.someAttrs()
	case "removeAttribute", "removeAttributeByIndex", "removeAttributeByController":
		op.Path = h.somePath(s)
	case "addRecovery":
		k := h.fresh()
		op.Addr, op.RecKey = k.Address(), k
	case "setRecovery", "updateRecovery":
		op.Group = h.randomGroup(id, true)
		if op.Group == nil {
			op.Group = &iddrv.Group{Members: []iddrv.Member{{ID: id}}, Threshold: 1}
		}
	case "addService", "updateService", "removeService":
		op.SvcID = []byte(svcIDs[h.rng.Intn(len(svcIDs))])
		if method != "addService" && len(s.Services) > 0 && h.rng.Chance(80) {
			var have []string
			for k := range s.Services {
				have = append(have, k)
			}
			sort.Strings(have)
			op.SvcID = []byte(have[h.rng.Intn(len(have))])
		}
	case "addContext", "removeContext":
		n := h.rng.Range(1, 2)
		for i := 0; i < n; i++ {
			op.Contexts = append(op.Contexts, []byte(ctxs[h.rng.Intn(len(ctxs))]))
		}
	}
	return op
}

var mutators []string

var conditional = map[string]bool{"updateService": true, "removeService": true, "removeAttribute": true, "removeAttributeByIndex": true,
	"removeAttributeByController": true, "changeRecovery": true, "updateRecovery": true, "removeController": true,
	"removeKeyByController": true, "removeAuthKeyByController": true, "setAuthKeyByController": true,
	"addKeyByRecovery": true, "removeKeyByRecovery": true, "addNewAuthKeyByRecovery": true, "setAuthKeyByRecovery": true, "removeAuthKeyByRecovery": true}

func init() {
	for _, mi := range iddrv.Methods {
		if mi.Kind != iddrv.KReg && mi.Kind != iddrv.KRegCtrl {
			mutators = append(mutators, mi.Name)
		}
	}
}

func (h *hist) enabled(method string, s *iddrv.IDState) bool {
	switch iddrv.KindOf(method) {
	case iddrv.KCtrl:
		return s.Ctrl != nil
	case iddrv.KRec:
		return s.RecKind == iddrv.RecNew
	case iddrv.KOldRec:
		return s.RecKind == iddrv.RecOld
	case iddrv.KIdx, iddrv.KPub, iddrv.KPubRec:
		if len(liveAuth(s)) == 0 {
			return false
		}
	}
	switch method {
	case "updateService", "removeService":
		return len(s.Services) > 0
	case "removeAttribute", "removeAttributeByIndex", "removeAttributeByController":
		return len(s.Attrs) > 0
	case "removeController":
		return s.Ctrl != nil
	case "removeRecovery":
		return s.RecKind != iddrv.RecNone
	case "addRecovery":
		return s.RecKind != iddrv.RecOld
	case "setRecovery":
		return s.RecKind != iddrv.RecNew
	case "revokeID", "revokeIDByController", "addProof":
		return false // allowed, but not favoured
	}
	return true
}

func (h *hist) gen() *iddrv.Op {
	id := h.ids[h.rng.Intn(len(h.ids))]
	s := h.m.St(id)
	regMethod := func() string {
		switch p := h.rng.Intn(100); {
		case p < 40 || len(h.validOthers(id)) == 0 && p < 85:
			return "regIDWithPublicKey"
		case p < 52:
			return "regIDWithAttributes"
		default:
			return "regIDWithController"
		}
	}
	switch s.State {
	case iddrv.NotExist:
		if h.rng.Chance(80) {
			return h.build(regMethod(), id)
		}
		return h.build(mutators[h.rng.Intn(len(mutators))], id)
	case iddrv.Revoked:
		if h.rng.Chance(45) {
			return h.build(regMethod(), id)
		}
		return h.build(mutators[h.rng.Intn(len(mutators))], id)
	}
	if h.rng.Chance(4) {
		return h.build(regMethod(), id) // already registered
	}
	// state-enabling nudges so deep states are reached
	if h.rng.Chance(35) {
		var goals []string
		if s.Ctrl != nil && len(liveAuth(s)) == 0 {
			goals = append(goals, "addNewAuthKeyByController", "addNewAuthKeyByController", "addKeyByController", "setAuthKeyByController")
		}
		if len(liveAuth(s)) > 0 {
			if s.RecKind == iddrv.RecNone {
				goals = append(goals, "setRecovery", "addRecovery")
			}
			if len(liveAuth(s)) < 2 {
				goals = append(goals, "addNewAuthKey")
			}
			if len(noAuthKeys(s)) == 0 {
				goals = append(goals, "addKeyByIndex")
			}
			if len(revokedKeys(s)) == 0 && len(liveKeys(s)) >= 2 {
				goals = append(goals, "removeKeyByIndex", "removeKey")
			}
			if len(s.Services) == 0 {
				goals = append(goals, "addService")
			} else {
				goals = append(goals, "updateService", "removeService")
			}
			if len(s.Attrs) == 0 {
				goals = append(goals, "addAttributesByIndex", "addAttributes")
			}
			if s.Ctrl != nil {
				goals = append(goals, "removeController")
			}
		}
		if s.RecKind == iddrv.RecNew && len(liveAuth(s)) == 0 {
			goals = append(goals, "addNewAuthKeyByRecovery", "setAuthKeyByRecovery")
		}
		if s.RecKind == iddrv.RecNew {
			goals = append(goals, "setAuthKeyByRecovery", "removeAuthKeyByRecovery")
		}
		if s.Ctrl != nil && len(s.Attrs) > 0 {
			goals = append(goals, "removeAttributeByController")
		}
		if s.Ctrl != nil && len(s.Attrs) == 0 {
			goals = append(goals, "addAttributesByController")
		}
		if len(goals) > 0 {
			return h.build(goals[h.rng.Intn(len(goals))], id)
		}
	}
	method := mutators[h.rng.Intn(len(mutators))]
	if h.rng.Chance(75) {
		// favour methods whose preconditions can hold in this state; the ones that need a
		// particular configuration (controller, recovery, existing attribute/service) thrice
		var en []string
		for _, mth := range mutators {
			if h.enabled(mth, s) {
				en = append(en, mth)
				if conditional[mth] {
					en = append(en, mth, mth)
				}
			}
		}
		if len(en) > 0 {
			method = en[h.rng.Intn(len(en))]
		}
	}
	return h.build(method, id)
}

// ---------------------------------------------------------------- run

type mismatch struct {
	Method, Class, Why string
	Success            bool
	Expect             bool
}

var (
	mmMu       sync.Mutex
	mismatches = map[string]int{}
	mmSample   = map[string]interface{}{}
)

func noteMismatch(key string, sample interface{}) {
	mmMu.Lock()
	mismatches[key]++
	if _, ok := mmSample[key]; !ok && len(mmSample) < 40 {
		mmSample[key] = sample
	}
	mmMu.Unlock()
}

func runHistory(r *vf.Run, pool *iddrv.Pool, idx int, rng *vf.RNG, nOps int) {
	env, err := pool.Get()
	if err != nil {
		r.Inconclusive(fmt.Sprintf("history %d: cannot open ledger: %v", idx, err))
		return
	}
	broken := false // set when a block commit fails or panics: the ledger is not reused
	defer func() { pool.Put(env, broken) }()
	h := &hist{idx: idx, rng: rng, m: iddrv.NewModel(), env: env}
	for i := 0; i < nIDs; i++ {
		h.ids = append(h.ids, iddrv.DetID(fmt.Sprintf("c45/%d/%d/%d", vf.Seed(), idx, i)))
	}
	h.pool = txgen.PickSetLight(rng.Sub(1), 64)
	before := env.ContractState()
	witness := func(extra map[string]interface{}) map[string]interface{} {
		w := map[string]interface{}{"history": idx, "seed": vf.Seed(), "ids": h.ids, "ops": h.log}
		for k, v := range extra {
			w[k] = v
		}
		return w
	}
	for n := 0; n < nOps; n++ {
		op := h.gen()
		stBefore := h.m.St(op.ID).State
		tx, err := env.Tx(op.Code(), op.Signers)
		if err != nil {
			r.Inconclusive(fmt.Sprintf("history %d: cannot build tx: %v", idx, err))
			return
		}
		op.Witness = tx.GetSignatureAddresses()
		for i, k := range op.Signers {
			if i < len(op.Witness) && op.Witness[i] != k.Address() {
				r.Count("signer-whose-tx-witness-address-differs-from-key-address(eth-type)")
			}
		}
		auth := h.m.Authorised(op)
		exp, why := h.m.Expect(op)
		var res []iddrv.TxResult
		var cerr error
		if p := vf.Catch(func() { res, cerr = env.Commit(txsOf(tx), 0) }); p != nil {
			d := op.Describe()
			d["panic"] = fmt.Sprint(p)
			h.log = append(h.log, d)
			r.Violation("panic-in-block-execution:"+op.Method, fmt.Sprint(p), witness(nil))
			broken = true
			return
		}
		if cerr != nil {
			r.Inconclusive(fmt.Sprintf("history %d: block commit failed: %v", idx, cerr))
			broken = true
			return
		}
		ok := res[0].State == 1
		d := op.Describe()
		d["n"] = n
		d["success"] = ok
		d["model_authorised"] = auth
		d["model_expected"] = exp
		h.log = append(h.log, d)
		h.short = append(h.short, fmt.Sprintf("%s[%s]=%v", op.Method, op.Class, ok))
		s := h.view(op.ID)
		shape := fmt.Sprintf("k%d/c%v/r%d/st%d", len(s.Keys), s.Ctrl != nil, s.RecKind, stBefore)
		r.Eval(fmt.Sprintf("%s|%s|%v|%v|%s", op.Method, op.Class, ok, auth, shape))
		r.Count("ops")
		r.Count("class/" + op.Class)
		if ok {
			r.Count("accepted/" + op.Method)
			r.Count("accepted-total")
		} else {
			r.Count("rejected/" + op.Method)
			r.Count("rejected-total")
			if auth {
				r.Count("rejected-though-authorised") // preconditions, or authority presented the wrong way
			} else {
				r.Count("rejected-unauthorised")
			}
		}
		if stBefore == iddrv.Revoked {
			r.Count("post-revoke-attempts")
			if iddrv.KindOf(op.Method) == iddrv.KReg || iddrv.KindOf(op.Method) == iddrv.KRegCtrl {
				r.Count("post-revoke-reregistration-attempts")
			}
		}
		after := env.ContractState()
		switch {
		case ok && stBefore == iddrv.Revoked:
			r.Violation(fmt.Sprintf("revoked-id-changed:%s:%s", op.Method, op.Class),
				"a call on a revoked identity succeeded", witness(map[string]interface{}{"state_diff": chain.DiffDumps(before, after, 12)}))
			return
		case ok && !auth:
			r.Violation(fmt.Sprintf("unauthorised-success:%s:%s", op.Method, op.Class),
				"mutating call succeeded although no authorised key / controller / recovery witnessed the transaction",
				witness(map[string]interface{}{"state_diff": chain.DiffDumps(before, after, 12)}))
			return
		case !ok:
			if diff := chain.DiffDumps(before, after, 12); len(diff) > 0 {
				r.Violation("failed-call-changed-state:"+op.Method, "a failed call changed committed contract state", witness(map[string]interface{}{"state_diff": diff}))
				return
			}
			r.Count("failed-call-state-unchanged")
		}
		if exp && !auth {
			r.Inconclusive(fmt.Sprintf("model inconsistency: %s expected to succeed but not authorised at statement level", op.Method))
		}
		if ok != exp {
			key := fmt.Sprintf("%s:%s:success=%v:expect=%v(%s)", op.Method, op.Class, ok, exp, why)
			r.Count("outcome-mismatch")
			noteMismatch(key, witness(nil))
			if ok {
				// the model's precondition was wrong: its state is no longer trustworthy
				r.Count("history-abandoned-after-unexpected-success")
				return
			}
		}
		if ok {
			h.m.Apply(op)
			if len(chain.DiffDumps(before, after, 1)) == 0 && op.Method != "addContext" && op.Method != "removeContext" {
				r.Count("successful-call-without-state-change")
			}
			issues, nq := env.CheckQueries(h.m, op.ID)
			r.Add("queries", int64(nq))
			if len(issues) > 0 {
				q := issues[0]
				for i, c := range q {
					if c == ' ' {
						q = q[:i]
						break
					}
				}
				r.Violation("query-disagrees:"+q, "query methods disagree with the model after a successful call: "+issues[0],
					witness(map[string]interface{}{"issues": issues}))
				return
			}
			r.Count("queries-agree")
		}
		before = after
	}
	for _, id := range h.ids {
		issues, nq := env.CheckQueries(h.m, id)
		r.Add("queries", int64(nq))
		if len(issues) > 0 {
			q := issues[0]
			for i, c := range q {
				if c == ' ' {
					q = q[:i]
					break
				}
			}
			r.Violation("query-disagrees-at-end:"+q, issues[0], witness(map[string]interface{}{"issues": issues, "id": id}))
			return
		}
	}
	r.Count("histories-completed")
	if idx < 3 {
		r.Sample(map[string]interface{}{"history": idx, "ops": h.short})
	}
}

func txsOf(tx *types.Transaction) []*types.Transaction { return []*types.Transaction{tx} }

// probeIndexZero checks (in pre-execution, guarded) what removeKeyByController does with
// key index 0 when the controller proof is valid: a side observation, not part of C45.
func probeIndexZero(r *vf.Run, scratch string) {
	dir := filepath.Join(scratch, "probe0")
	defer os.RemoveAll(dir)
	env, err := iddrv.NewEnv(dir)
	if err != nil {
		return
	}
	defer env.Close()
	m := iddrv.NewModel()
	ks := txgen.PickSetLight(vf.NewRNG(7), 3)
	a, b := iddrv.DetID("probe0/a"), iddrv.DetID("probe0/b")
	ops := []*iddrv.Op{
		{Method: "regIDWithPublicKey", ID: a, Pub: ks[0].PubBytes(), PubKey: ks[0], Signers: []*txgen.Key{ks[0]}},
		{Method: "regIDWithController", ID: b, CtrlID: a, Index: 1, Signers: []*txgen.Key{ks[0]}},
		{Method: "addKeyByController", ID: b, Pub: ks[1].PubBytes(), PubKey: ks[1], ProofSingle: true, Index: 1, Signers: []*txgen.Key{ks[0]}},
	}
	for _, op := range ops {
		tx, err := env.Tx(op.Code(), op.Signers)
		if err != nil {
			return
		}
		res, err := env.Commit(txsOf(tx), 0)
		if err != nil || res[0].State != 1 {
			r.Extra("side_observation_index0", "probe setup failed")
			return
		}
		m.Apply(op)
	}
	op := &iddrv.Op{Method: "removeKeyByController", ID: b, Target: 0, ProofSingle: true, Index: 1, Signers: []*txgen.Key{ks[0]}}
	tx, _ := env.ProbeTx(op.Code(), op.Signers)
	var pr iddrv.PreResult
	p := vf.Catch(func() { pr = env.Pre(tx) })
	if p != nil {
		r.Extra("side_observation_index0", fmt.Sprintf("removeKeyByController(keyIndex=0) with a valid controller proof panics inside the native contract (pre-execution): %v — revokePkByIndex underflows index-1; the execution path has no recover, so the same transaction in a block would crash the node. Not an authorization defect (needs the controller's signature); workload avoids index 0 for removeKeyBy{Controller,Recovery}.", p))
		r.Count("side/index0-panics")
	} else {
		r.Extra("side_observation_index0", fmt.Sprintf("removeKeyByController(keyIndex=0): ok=%v err=%s", pr.OK, pr.Err))
	}
}

func main() {
	r := vf.NewRun("C45", "exploration",
		"seeded histories of 30-50 operations over 4 ONT IDs (keys of mixed types from a deterministic pool; registration by key / with attributes / with single or group (k-of-n, nested) controller; old address recovery and group recovery); every operation is one of the 40 mutating ontid methods with a signer set drawn from classes {right, right+extra, revoked key, key without auth right, other identity's key, controller's key for a self-op, own key for a controller op, empty, bad index, mismatched index, below-threshold / listed-not-signed / non-member / revoked-member group proofs, old-recovery address}; executed as a real signed transaction in its own block; a case = one operation, distinct by (method, signer class, outcome, model verdict, identity shape)")
	scratch := vf.Scratch("c45")
	defer os.RemoveAll(scratch)

	nHist := vf.N(300, 10000)
	workers := runtime.NumCPU()
	if workers > 16 {
		workers = 16
	}
	rng := vf.NewRNG(vf.Seed())
	pool := iddrv.NewPool(scratch, 25)
	probeIndexZero(r, scratch)
	vf.Parallel(nHist, workers, func(i int) {
		hr := rng.Sub(uint64(i))
		runHistory(r, pool, i, hr, hr.Sub(99).Range(30, 50))
	})

	var notDriven []string
	for _, mi := range iddrv.Methods {
		if mi.Kind == iddrv.KNever {
			notDriven = append(notDriven, mi.Name+": always returns an error (\"proof … is not supported yet\"); called with right and wrong signers, must never succeed")
			r.Require("rejected/"+mi.Name, 1)
			continue
		}
		r.Require("accepted/"+mi.Name, 1)
		r.Require("rejected/"+mi.Name, 1)
	}
	r.Extra("methods_not_driven", notDriven)
	r.Extra("not_covered", []string{"pre-fork code paths (Height < GetNewOntIdHeight, V0 key storage): the solo network activates the new ONT ID API at height 0 and the network id is process-global"})
	r.Require("post-revoke-attempts", 20)
	r.Require("post-revoke-reregistration-attempts", 5)
	r.Require("failed-call-state-unchanged", 100)
	r.Require("queries-agree", 100)
	for _, c := range []string{"right", "revoked", "noauth", "other", "empty", "bad-index", "ctrl-key-for-self-op", "group:right", "group:below-threshold", "group:listed-not-signed", "single:right", "single:self-key", "old-recovery"} {
		r.Require("class/"+c, 3)
	}
	mmMu.Lock()
	r.Extra("outcome_mismatches", mismatches)
	if len(mmSample) > 0 {
		keys := make([]string, 0, len(mmSample))
		for k := range mmSample {
			keys = append(keys, k)
		}
		sort.Strings(keys)
		if len(keys) > 6 {
			keys = keys[:6]
		}
		s := map[string]interface{}{}
		for _, k := range keys {
			s[k] = mmSample[k]
		}
		r.Extra("outcome_mismatch_samples", s)
	}
	mmMu.Unlock()
	r.Assume("transaction signatures are not re-verified by block execution (the validators do that before a tx enters a block); the witness set of a transaction is the set of its signature programs' addresses")
	r.Assume("statement-level authority = a non-revoked key with authentication right of the identity, its configured controller (single id or k-of-n group, recursively), or its configured recovery (address or group); which of them a given method consults is not judged")
	_ = common.ADDRESS_EMPTY
	pool.Close()
	os.RemoveAll(scratch)
	r.Finish()
}
