#!/bin/bash
# baseline_off.sh <out.json> : runs /repo's pinned suite with the verif guard OFF and compares with the
# stable-pass list of /root/.vp/BASELINE.json.
OUT=${1:-/var/tmp/baseline-latest.json}
export GOFLAGS=-mod=mod GOPROXY=off GOSUMDB=off GOTOOLCHAIN=local
(cd /repo && go test -mod=mod -json -vet=off -count=1 -timeout 25m ./... > "$OUT" 2> "$OUT.err")
python3 - "$OUT" <<'PY'
import json,sys
res={}
for l in open(sys.argv[1]):
    try: e=json.loads(l)
    except: continue
    if e.get('Test') and e.get('Action') in ('pass','fail','skip'):
        res[e['Package']+'::'+e['Test']]=e['Action']
b=json.load(open('/root/.vp/BASELINE.json'))
sp=b['stable_pass']
bad=[t for t in sp if res.get(t)!='pass']
print("stable_pass", len(sp), "passing now", len(sp)-len(bad))
for t in bad[:40]: print("  NOT PASSING:", t, res.get(t))
PY
