#!/bin/bash
# confirm_seed.sh <src-dir with patch.diff demo_test.go meta.json> <pkgdir for demo> <test regex> [extra go test flags]
# Confirms in a scratch worktree: demo passes on HEAD, patch applies, touched packages build and their
# existing tests pass with the patch (TestCheckReserveWithDomain needs a network and fails on the clean tree too: skipped),
# demo fails with the patch.  Prints a one-line JSON verdict.
SRC=$(realpath "$1"); PKG=$2; RX=$3; shift 3; EXTRA="$@"
export GOFLAGS=-mod=mod GOPROXY=off GOSUMDB=off GOTOOLCHAIN=local CGO_LDFLAGS="-L/verif/build -lwasmstub"
WT=$(mktemp -d /tmp/confirm-seed-XXXXXX); rmdir "$WT"
git -C /repo worktree add -q --detach "$WT" HEAD || exit 3
trap 'git -C /repo worktree remove --force "$WT" >/dev/null 2>&1' EXIT
cd "$WT"
DEMO=$(ls "$SRC"/demo*_test.go 2>/dev/null | head -1)
cp "$DEMO" "$PKG/zz_seed_demo_test.go"
go test $EXTRA -count=1 -run "$RX" "./$PKG/" > "$WT/.clean.log" 2>&1; clean_rc=$?
rm "$PKG/zz_seed_demo_test.go"
git apply "$SRC/patch.diff" || { echo '{"applies": false}'; exit 1; }
pkgs=$(git diff --name-only | xargs -n1 dirname | sort -u | sed 's|^|./|; s|$|/|' | tr '\n' ' ')
go build $pkgs > "$WT/.build.log" 2>&1; build_rc=$?
go test -count=1 -skip "^TestCheckReserveWithDomain$" $pkgs > "$WT/.tests.log" 2>&1; tests_rc=$?
cp "$DEMO" "$PKG/zz_seed_demo_test.go"
go test $EXTRA -count=1 -run "$RX" "./$PKG/" > "$WT/.patched.log" 2>&1; patched_rc=$?
echo "{\"applies\": true, \"demo_on_clean_head_rc\": $clean_rc, \"build_with_patch_rc\": $build_rc, \"existing_tests_of_touched_packages_rc\": $tests_rc, \"demo_with_patch_rc\": $patched_rc, \"touched_packages\": \"$pkgs\"}"
[ $tests_rc -ne 0 ] && grep -E "^(--- FAIL|FAIL)" "$WT/.tests.log" | head -5
exit 0
