#!/bin/bash
# Generates the harness' real go.mod/go.sum (used through -modfile) from the go.mod of the
# repository under test, so the harness always resolves exactly the dependency versions the
# repository itself pins.  Prints the path of the generated modfile.
set -e
REPO=${VERIF_REPO:-/repo}
V=$(cd "$(dirname "$0")/.." && pwd)
key=$(echo -n "$REPO" | md5sum | cut -c1-10)
D="$V/build/mod/$key"
mkdir -p "$D"
tmp=$(mktemp "$D/go.mod.XXXX")
{
  echo "module verifharness"
  echo
  echo "go 1.18"
  echo
  echo "require github.com/ontio/ontology v0.0.0"
  echo
  awk '/^require \(/{p=1} /^replace \(/{p=1} p{print} /^\)/{if(p){print ""};p=0}' "$REPO/go.mod"
  echo "replace github.com/ontio/ontology => $REPO"
} > "$tmp"
# keep an existing identical file (preserves mtime => no needless rebuilds); note that with
# -mod=mod the go tool may append indirect requirements: compare only our generated prefix
if [ -f "$D/go.mod.src" ] && cmp -s "$tmp" "$D/go.mod.src" && [ -f "$D/go.mod" ]; then rm -f "$tmp"; else cp "$tmp" "$D/go.mod"; mv "$tmp" "$D/go.mod.src"; fi
if [ ! -f "$D/go.sum" ] || [ "$REPO/go.sum" -nt "$D/go.sum" ]; then cp "$REPO/go.sum" "$D/go.sum"; fi
echo "$D/go.mod"
