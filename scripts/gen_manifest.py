#!/usr/bin/env python3
"""Regenerates /verif/MANIFEST.json from the table below.
A property is *claimed* iff it has an entry in CHECKS and harness/props/<id>/ exists;
every other property of properties.jsonl is listed under not_applicable with its reason."""
import json, os, sys

V = os.path.dirname(os.path.dirname(os.path.abspath(__file__)))

# id -> (category, technique, level text, level note)
CHECKS = {}
NA = {}

def chk(pid, technique, text, note, category="exploration", sec=None):
    CHECKS[pid] = dict(category=category, technique=technique, text=text, note=note, sec=sec or ("5/" + pid))

exec(open(os.path.join(V, "scripts", "manifest_table.py")).read())

props = [json.loads(l) for l in open(os.path.join(V, "properties.jsonl"))]
checks, na = [], []
for p in props:
    pid = p["id"]
    d = os.path.join(V, "harness", "props", pid.lower())
    if pid in CHECKS and os.path.isdir(d):
        c = CHECKS[pid]
        checks.append({
            "property_id": pid,
            "quick_cmd": "./check %s quick" % pid,
            "thorough_cmd": "./check %s thorough" % pid,
            "evidence_file": "/verif/evidence/%s.json" % pid,
            "replay_cmd_template": "./check %s --replay {path}" % pid,
            "engine": "runtime-monitors",
            "level_claimed": {"category": c["category"], "text": c["text"], "design_ref": "DESIGN.md §" + c["sec"]},
            "level_note": c["note"],
            "technique": c["technique"],
        })
    else:
        na.append({"property_id": pid, "reason": NA.get(pid, "monitor not built yet in this session (planned in DESIGN.md §5/%s); not claimed until it runs" % pid)})

m = {
    "version": 1,
    "setup_cmd": "./scripts/setup.sh",
    "hooks": {
        "guard": "verif (Go build tag)",
        "enable": "go build -tags verif (done by ./check for every monitor; hooks live in *_verif.go files with //go:build verif and inert twins with //go:build !verif)",
        "baseline_off_cmd": "cd /repo && go test -mod=mod -json -vet=off -count=1 -timeout 25m ./...",
        "source_commits": HOOK_COMMITS,
        "add_only": True,
    },
    "engines": [{
        "name": "runtime-monitors",
        "path": "/verif/harness",
        "serves_properties": [c["property_id"] for c in checks],
        "kind_free_text": "Go harness module (replace => /repo) compiled per property from /repo's working tree with -tags verif; seeded workloads drive the real code while reference-model / invariant / differential oracles observe it; race detector on concurrent workloads; child-process supervision for fatal errors",
    }],
    "checks": checks,
    "not_applicable": na,
    "notes": "All checks rebuild from /repo's current tree. VERIF_SEED selects the PRNG seed; case lists are a function of (seed, tier). Exit 2 = inconclusive (an oracle branch that must be exercised was not). Genuine defects: see known_findings.json and DESIGN.md §10.",
}
json.dump(m, open(os.path.join(V, "MANIFEST.json"), "w"), indent=1)
print("claimed", len(checks), "not_applicable", len(na))
