# Table consumed by gen_manifest.py (exec'd).  One chk(...) per claimed property.
HOOK_COMMITS = ["274ee918", "1925d4ab", "3680c81b", "e2c6273e", "41c2a203", "17c18b6e", "f1d44ebe"]

chk("C09", "algebraic-law monitor on the real issuance functions (additivity, totals) over an exhaustive boundary grid + seeded random triples",
    "Runs the real CalcUnbindOng/CalcGovernanceUnbindOng on every triple of a ~70-point boundary grid per network id (interval edges, both deadlines ±2, 0, 2^32-1) and on seeded random triples, asserting F(s,e)=F(s,m)+F(m,e), F(s,s)=0, and holder+governance totals = ONG supply, also through random piecewise settlements. Exploration: the grid is exhaustive over the listed boundaries, the rest is sampled.",
    "32-bit offsets; balance factor in {1,7,total}; network ids main/polaris/solo/one unknown id")

chk("C01", "crash-point fault injection (verif hook) + on-disk snapshot / real SIGKILL, recovery through the production InitLedger path, differential against an uncrashed reference run",
    "Every one of the 6 crash points of submitBlock is enumerated at every block of seeded chains (both commit paths, mixed tx kinds incl. EVM); each yields the directory a process death would leave, which is reopened with the real recovery code and compared (full state-DB dump, all state merkle roots, block merkle root, event notifies, merkle proofs) with the uncrashed reference at the recovered height, then fed the next reference blocks, then reopened again. Recoveries that replay a block are themselves crashed at 3 recovery points; the eagerly appended merkle hash file is torn at every 32-byte boundary and mid-hash; a child process is SIGKILLed for real at sampled firings.",
    "process death only (page cache survives), LevelDB's own write atomicity trusted; chains of 12 (quick) / 36x5 (thorough) blocks", category="fault_enumeration")

chk("C39", "mutation monitor on valid next blocks (bytes -> decode -> AddBlock / ExecuteBlock+SubmitBlock) with full-ledger fingerprint before/after",
    "At sampled heights of solo, 4- and 7-bookkeeper chains a valid next block is built and ~25 single-field mutants (height, prev hash, timestamp, block root, tx root, tx list, signature count/validity/signer, state-root argument), re-signed where needed so exactly one check can reject them, are offered through both commit paths; each must return an error and leave height, hashes, the full state-DB dump, all merkle roots and the header index unchanged; the valid block must then still commit with the reference result.",
    "blocks reach the ledger as bytes; VBFT header signature rules are C32's subject")

chk("C40", "cross-query consistency monitor over committed block bytes, across clean and crash-style restarts, concurrent readers under the race detector (thorough)",
    "Every query family (hash by height, block by height/hash, header by hash/height, raw header, transaction by hash with height, containment) is compared with the bytes of the block that was committed, for all heights of short chains and for window + random + header-index-cache-edge heights of a >2000-block chain, live, after Close+reopen, after reopening a copy taken while running and after reopening a snapshot taken at each of the 6 crash points of a block commit (restart height must be h-1 or h); on a quarter of the heights header sync first announces a COMPETING valid header of that height (the rival must never be reported as a block); unknown hashes/heights must give not-found.",
    "solo chains built like consensus/solo.makeBlock; pruning disabled")

chk("C42", "state-fingerprint and on-disk-dump invariance monitor around every read-only entry point + differential against a reference ledger that never pre-executed",
    "Hundreds of seeded pre-execution requests that would write (token transfers with fee, storage put/delete, approve, deploy, contract destroy, notify, EVM transfer and create+SSTORE+LOG) go through PreExecuteContract, PreExecuteContractBatch(atomic t/f), PreExecuteEIP155, PreExecuteEip155Tx and TraceEip155Tx; API-level fingerprint after requests, byte dump of every store directory and a probe block's execution per batch must be unchanged; on every second block requests are also served between ExecuteBlock and SubmitBlock (the split consensus API); the ledger then commits further blocks in lock-step with a reference ledger; a concurrent variant races pre-executions with commits (race detector in thorough).",
    "WASM pre-execution not driven (JIT unavailable in this sandbox)")

chk("C02", "3-way differential between real ledgers: validating consensus node vs byte-decoding syncing node vs separate-process restarted node, plus repeated execution",
    "Seeded block sequences (token transfers incl. failing ones, contract storage, EVM transfers, deploy) each carrying a transfer authorised by one signer variant - every supported key type incl. Ethereum-type keys, alternative accepted encodings of a P-256 key, PUSHDATA1 form, multisig canonical / reversed key order / with an Ethereum-type member - are validated+executed on node A, decoded from bytes and AddBlock'ed on node B and on node C in a child process (fresh map seeds, restarts); per block the full state dump hash, state root, block root and event notifies must agree; each block is executed 3x on A.",
    "same binary/arch on all nodes; WASM not driven")

chk("C05", "per-transaction write-set monitor on the real block executor (ExecuteBlock of single-tx blocks on committed states) against the fee-only rule",
    "1500/40000 generated invoke transactions (random bytes; scripts that write storage, notify, transfer ONG and then THROW/fault/loop; drain their payer so the fee is unpayable; native calls with random arguments; unauthorised and over-balance transfers; successes) x gas price {0,1,500,2500,random} x gas limits around minimum/code-length gas x 13 graded payer balances. For FAIL: changed keys must be only payer/governance ONG balance, fee conserved, 0<=fee<=balance, GasConsumed=fee, only the fee event; for charged successes GasConsumed = ONG reaching governance.",
    "invoke transactions only (deploy/EIP-155 are chain furniture); WASM invokes not driven")

chk("C43", "log-vs-bloom monitor on committed blocks + exact bit-for-bit comparison of each completed section index with the per-block blooms, across restarts",
    "4200 (quick) / 8400 (thorough) block solo chains with generated LOG0..LOG4 contracts called with random topics/data (incl. reverting calls); every log in the stored events and every log expected by construction must hit the stored block bloom (address + each topic); at every completed 4096-block section all 2048 decompressed bit vectors must equal the blooms they were built from in both directions, live and after restarts inside and exactly at a section end.",
    "filter start height 0 (solo network); logs = generated contracts + native ONG transfer logs")

chk("C35", "history monitor over the real pool -> proposer selection -> ledger commit pipeline with per-block and per-replacement oracles; race detector on concurrent submitters (thorough)",
    "60/1500 seeded histories over 4 funded EVM senders drive txnpool/common.TXPool as the pool server does, select block content exactly like solo.makeBlock/vbft.makeProposal (GetTxPool + IncrementValidator.Verify with the validator's block range), really execute and commit the block (EVM nonces really move), then AddBlock/CleanCompletedTransactionList. Every proposed block: no duplicate hash, nothing already on chain, per sender consecutive nonces starting at the ledger account nonce, block accepted by the ledger. Every accepted same-nonce replacement: strictly higher gas price and the replaced tx is never proposed.",
    "stateful door checks and re-verification of expired entries are mirrored by the harness; the server's actor/worker plumbing is not driven")

chk("C18", "round-trip / canonicity / cursor-model monitor with an independent reference codec and canary-guarded buffers; race detector + checkptr in thorough",
    "Every primitive written by the zero-copy sink must equal an independent reference encoding and read back identically with exact consumption (single values and mixed lists, through both codecs and crosswise); every non-minimal VarUint form must be reported irregular by all six source/reader entry points; 24 source operations in random sequences on hostile fragment-built inputs must match a cursor model (eof exactly on overrun, Pos<=Size, returned slices inside the input - observed via canaries and spare capacity); the io.Reader codec must not allocate beyond input+constant on hostile length prefixes.",
    "1.9M (quick) / 9.7M (thorough) evaluations; serialization.ReadVarUint accepting non-minimal forms is recorded as an observation (the statement's canonicity clause is on the zero-copy source)")

chk("C22", "round-trip + exhaustive single-edit mutation monitor against an independent base58check reference",
    "For 500 / 20000 addresses (incl. all-zero, all-ones, one-bit) every single-character substitution (57 symbols + 6 non-symbols), deletion, insertion and adjacent transposition of the base58 string, all single hex edits, and arbitrary strings (long, leading 1s, other versions, wrong checksums, junk) are decoded by the real code and by an independent reference implementation; accept/reject and the decoded address must agree, an accepted string must re-encode to itself, hex encodings round-trip.",
    "2.8M (quick) / 112M (thorough) evaluations")

chk("C21", "round-trip / minimality monitor against independent reference encoders (two's complement, 128-bit, native varuint, token balance item)",
    "BigIntToNeoBytes must equal an independent minimal two's-complement encoder and round-trip; arbitrary bytes must decode like the reference and re-encode idempotently to the minimal form; I128 conversions round-trip on [-2^127,2^127) and reject outside; native EncodeVarUint equals a reference encoder, round-trips consuming exactly its bytes, and no truncated / negative / >64-bit form decodes to a uint64, no padded form decodes to a wrong value; token balances in [0,10^27]: version 0 iff divisible by 10^9, bytes a function of the value only, exact round trip.  Boundary sets (+-2^(8k-1)+d, +-2^(8k)+d, k<=33) exhaustive + 4.8M / 178M random.",
    "decoder leniency towards padded native-varuint bodies is recorded as an observation (quantifier ranges over integers; see DESIGN 10.3)")

chk("C15", "repetition monitor: identical observables across fresh engines in-process and across child processes with fresh map seeds",
    "1200 / 30000 generated map-centric NeoVM programs (2-11 entries of mixed value kinds; in ~45% one entry is the map itself, an array holding the map, or nested beyond the depth limit; REMOVE; sinks: Serialize, Notify, Storage.Put(Serialize), KEYS, VALUES, map as return value, serialize-deserialize-serialize) are each pre-executed and block-executed (charged, so gas shows in the write set) 6x in-process and once in each of 2-4 child processes; success/failure, return value, notifications, gas and write-set hash must be identical.",
    "the text of an error message is not an observable of the statement (only success/failure is); order dependence with probability p per run escapes with (1-p)^8..10")

chk("C03", "model-based + metamorphic monitor on the real OverlayDB/MemDB",
    "The change hash must equal sha256 over the sorted key||value content of a Go-map model and the write set must enumerate exactly the model in ascending order; the same final map is re-created by 7 further operation sequences (sorted, permuted, overwrite-then-restore, delete-then-recreate, same value twice, routed through CacheDB transactions incl. discarded ones, after Reset) which must all give the same hash and write set. 20000 / 400000 final maps x 8 sequences.",
    "keys 0-40 bytes over a small alphabet, histories of 1-400 ops over a pre-populated store")

chk("C04", "model-based state machine on the real CacheDB -> OverlayDB -> LevelDB(mem) stack, compared after every operation",
    "A three-layer Go-map model is compared with the real stack after EVERY op over the whole key universe: Get at all three levels, write-set enumeration, and prefix iterators (8 prefix kinds) at cache/overlay/store level - outside-prefix, order, duplicates, deleted keys, extra/missing keys, values, Error(), termination. 14 JoinIter situations are counted from the model and required. 200k / 3.2M ops.",
    "key universe <= 24 keys sharing prefixes; iterators held open across writes are exercised through C44 only")

chk("C44", "layer-model monitor for migrate/clean at CacheDB level + ledger-level VM scenarios",
    "Contract storage spread over persistent store, block overlay and tx cache (all 17 placement combinations, tombstones, byte-neighbour contract addresses, addresses ending 0x00/0xff) is migrated / cleaned (also chained, in the same tx, after a tx commit, in the next block) and compared with a model at every level and phase: every old entry readable under the new address, none live under the old one, neighbours untouched, destroyed marker per tracking height.",
    "VM level: 60 / 1500 ledger scenarios (deploy, fill over blocks, kill by Destroy / Migrate / Destroy+Put / Migrate+Put-through-old-context, then 2 rounds of attacks on the dead address: call, Deploy tx, Contract.Create, migrate a third contract to it). 2 known findings (Put after Destroy/Migrate in the same invocation succeeds); migrate-to-self refused by ContractMigrate is out of domain")

chk("C06", "token-ledger reference model + conservation / authorization invariants on committed state after real invoke transactions",
    "Every ONT/ONG transfer, transferV2, approve, approveV2, transferFrom, transferFromV2 call is a signed invoke tx in a real block (solo, polaris and main network ids); after every block: sum over all balance keys per token unchanged and equal to total supply, no negative item, success only with the debited account's witness or a sufficient decremented allowance, blocks where no call took effect leave the whole dump identical, balances/allowances equal the model. 10.7k / 322k calls.",
    "unbound-ONG side channel checked for shape only (amounts are C09's subject)")

chk("C07", "ONG-conservation / nonce / fee invariant monitor around the real HandleEIP155Transaction + real blocks",
    "Generated EVM programs (SSTORE set/clear, CALL with value to fresh/EOA/contract/self/precompile, CREATE children, REVERT, INVALID, OOG loops, SELFDESTRUCT to other and to self) x balances x gas prices x gas limits x nonces: per applied tx sum of all ONG balance keys unchanged, nonce +1 whatever the VM outcome, debit <= gasLimit*price+value, fee receiver credited UsedGas*price, only logged parties change; wrong nonce => error and raw state unchanged, block rejected by ExecuteBlock and AddBlock. 3.3k / 61k txs.",
    "chain id 12345 (solo); known finding: SELFDESTRUCT to self burns ONG")

chk("C08", "observation-vector equality monitor on the real StateDB over CacheDB/OverlayDB",
    "Random histories of SetState/SetNonce/SetCode/Add-/SubBalance/Suicide/AddLog/AddRefund/SubRefund with nested Snapshot/RevertToSnapshot/DiscardSnapshot (depth <= 12, revert of inner and outer snapshots): the vector of GetState, GetCommittedState, nonce, code/hash/size, balance, suicided, Exist, Empty, refund, logs over 6 addresses x 4 slots must equal the one stored at Snapshot() after every revert and be unchanged by Snapshot/Discard. 4000 / 100000 histories.",
    "discard restricted to the innermost snapshot (EVM discipline)")

chk("C10", "invariant monitor around every epoch settlement of the real governance contract driven by signed invoke transactions",
    "Generated governance histories (register/authorize/unauthorize/withdraw/quit/black/white/penalty/initPos/peer cost/fee percentage/global params/gas address/fee withdrawals/ONG income, ~18% invalid ops) on real solo ledgers and, for chosen heights, through the production HandleInvokeTransaction on a copy of the state (both engines cross-checked in lock-step): per settlement sum of credit deltas + dapp share <= income, each credit monotone and <= income, sum of credits <= governance ONG, and every credited address can withdrawFee exactly its amount. ~1160 / 19000 settlements.",
    "solo network id only (current fee formulas); genesis deposit of sum(InitPos) assumed as at the real launch")

chk("C11", "conservation monitor over the same governance driver, evaluated after every operation",
    "After EVERY operation (successful or not): ONT.balanceOf(governance) == sum TotalStake + sum PenaltyStake(InitPos+AuthorizePos) enumerated by key prefix over the state dump; a failed op leaves the whole storage dump unchanged; ONT paid out <= unfrozen position read just before; cumulative withdrawn <= cumulative deposited per address. 12.4k / 162k ops.",
    "same assumptions as C10")

chk("C12", "process-survival monitor: generated cases run in supervised child processes, each case logged before execution",
    "NeoVM programs (self-referencing containers at every element position, nests to depth 1100, every syscall with random argument stacks, every registered native method with random / hostile-length / structured arguments, resource extremes, opcode soup, raw bytes) and EVM cases (raw, generated, all precompiles with hostile lengths) go through PreExecuteContract, free and charged ExecuteBlock, PreExecuteEip155Tx and EIP-155 block execution; a panic escaping an entry point, a fatal runtime error, a signal or growth beyond the memory bound is a violation with the logged case as witness; a stall is inconclusive.",
    "WASM not driven; multi-step scenarios (e.g. governance settlement with zero-stake peers, ontid removeKeyByController index 0 - both seen to panic by other monitors' drivers, see DESIGN 10) are outside the generators")

chk("C13", "differential monitor: real NeoVM executor vs math/big on boundary-exhaustive and random operands in three operand representations",
    "26 opcodes as real scripts; result compared as big.Int and as re-encoded bytes with the exact math/big result; out-of-bound results, division by zero and negative shifts must fault; every case in minimal-bytes, sign-padded and VM-produced-integer representations. 25-value boundary set exhaustive (23k tuples) + 100k / 5M random.",
    "three known findings (DIV MinInt64/-1, INVERT 2^256-1, SHR count >= 2^64)")

chk("C14", "round-trip + cycle-rejection monitor with child-process supervision of every cyclic case",
    "Acyclic values within limits must serialize deterministically, deserialize to a structurally equal value (own comparer) and re-serialize identically, shared sub-values must not be rejected; arbitrary / mutated bytes must not panic and accepted values must be re-serialization fix points; cycles closed at first/middle/last position or map entry, through 1-3 containers, must make Serialize and BuildParamToNative return an error and Stringify/Dump/ConvertNeoVmValueHexString terminate (each item in a child process).",
    "detector's own answer is recorded, not judged")

chk("C16", "construction-truth + independent re-verification monitor around the real VerifyTransaction with ~150 mutants per transaction",
    "Valid-by-construction transactions (all 7 key types, single and m-of-n, 1-16 signature sets) must be accepted and every mutant rejected: flips of the unsigned content, flips in each required signature, signature by another key / over another hash, duplicated signer, too few / truncated signatures, payer not a signer, m changed without re-deriving the payer, payer set dropped, n>16, m=0, m>n, >16 sets, off-curve key; everything accepted is re-verified with ontology-crypto only (>= m distinct keys, payer among the accounts). 50k / 473k evaluations.",
    "surplus signatures beyond m are observations (domain note in DESIGN)")

chk("C17", "differential monitor: unvalidated vs validated vs child-process decode of the same bytes, against an independent account derivation",
    "For every accepted transaction the signer-address sets of an unvalidated copy, a validated copy, a queried-then-validated copy and a decode in a child process must be equal to each other and to the monitor's own derivation, and CheckWitness must agree on all copies for the union plus near-miss and random addresses; workload sweeps key type x encoding x push form, all permutations for n<=4, n=2..16 x 4 ways of writing n, 1-16 sets. 2000 / 60000 cases.",
    "fires if e5cf792b is reverted")

chk("C19", "round-trip + mutation monitor on both transaction decoders with an independent wire/RLP re-encoder",
    "Every input through TransactionFromRawBytes and Deserialization: accepted => ToArray()==consumed bytes and == own re-encoding; hash = sha256d(unsigned prefix) (Ontology format, independent of signatures, dependent on every unsigned field) or keccak(rlp) with recovered sender = payer (EIP-155); > MAX_TX_SIZE rejected; flips, truncation, append, non-minimal varuints at every length field, non-canonical RLP families, semantic EIP mutations, signature-set variants, random and spliced strings. 923k / 44.6M evaluations.",
    "EIP-155 hash includes the signature by Ethereum's definition (DESIGN C19)")

chk("C20", "round-trip + mutation monitor on both block decoders with an independent re-encoder",
    "Accepted block => ToArray()==consumed bytes == own re-encoding, tx root = merkle root of the decoded list, no repeated tx hash, block hash = sha256d of the 9 unsigned header fields (changes with each of them, not with bookkeepers/signatures); reorder / duplicate (incl. root-preserving duplicate-tail shapes) / drop / replace / add / count mutations must be rejected; alternative bookkeeper key encodings; per-region flips, truncation, non-minimal prefixes. 313k / 5.6M evaluations.",
    "")

chk("C23", "parse-back / order-freedom monitor on the real program builder and parser",
    "All single keys round-trip; key sets of size 2-16 x every threshold x 4 orderings give byte-identical scripts/addresses, parse back to (sorted keys, m), distinct address per threshold and key set; invalid (n,m) rejected by encoder and parser (12 hand-assembled families); byte strings never panic and accepted ones satisfy 1<=m<=n<=16. 119k / 4.5M evaluations.",
    "")

chk("C24", "structured round-trip + child-supervised hostile decoding of every p2p message type",
    "All 21 message types: WriteMessage -> ReadMessage -> WriteMessage byte-identical and deep-equal; valid header + hostile payload (every prefix, every byte position overwritten with a count grid {0,1,MAX,MAX+1,2^31,2^32-1,2^63,2^64-1,...} as u8/u16/u32/u64/varuint, random edits, alternative key encodings) and hostile streams (magic, length, checksum, truncation at every offset): no panic / fatal error (child per batch, case logged first), bounded large-object allocation, accepted messages re-serialize to the consumed bytes. 447k / 10M cases.",
    "Addr/Inv clamps and 3 other documented leniencies are counted as exempt")

chk("C25", "round-trip + child-supervised hostile decoding of the cross-VM codec",
    "Generated nested values (lists to depth 6, bytes, strings, addresses, bools, big ints over the i128 range, hashes) encode and decode to deep-equal values consuming all bytes, also through DeserializeCallParam / DeserializeNotify; out-of-range integers refused at every depth; hostile bytes (all 1-2 byte strings, random, mutated, forged lengths, 20000-level nests, giants at the 64 KiB / 1 MiB / 10 MiB production limits) must not panic, overflow the stack or allocate beyond 128*len+4MiB, accepted values re-encode to the consumed bytes. 112k / 6.7M evaluations.",
    "")

chk("C26", "reference-implementation differential (own RFC 6962 / RFC 9162 code) + exhaustive single-mutation rejection, exhaustive up to a bound",
    "For all tree sizes up to N (64 quick / 300 thorough): incremental root = reference head, look-ahead roots without mutation, inclusion proofs for all (m,n) and consistency proofs for all (m,n) equal the reference and verify; every single mutation (leaf, index, size, root, each proof element flipped / dropped / duplicated / swapped, appended, prepended) must be rejected; file-backed tree reloaded at every size in 4 file shapes; sampled sizes around 2^k up to 2^16.",
    "exhaustive only up to N; tree-size mutants that RFC heads cannot distinguish are judged by the reference verifier", category="exploration")

chk("C27", "positive/negative proof monitor for cross-chain merkle paths against an own reference",
    "For every list size up to 33 / 257: every member's MerkleLeafPath proves exactly that value; no mutated path (value bytes, interior-node preimages, direction flags, siblings, truncation/extension by every k in 1..70, foreign steps, cross-list paths/roots, arbitrary bytes) proves a value whose leaf hash is not in the list. 555k / 11.3M evaluations.",
    "paths with ignored trailing bytes that still prove a member are malleability, counted not flagged")

chk("C28", "threshold-measurement monitor: smallest accepted signer set probed on the real acceptance functions; exhaustive up to a bound",
    "Thresholds are measured, not read: getCommitConsensus (7 shapes, every (N,C) with 4<=N<=400), the real BlockPool commitDone / endorse-signature fallback / endorseDone with real signatures, validation.VerifyBlock, the non-VBFT ledger verifyHeader and AddressFromBookkeepers' m for N<=16(40); each quorum-type pair must satisfy t_a+t_b-N >= C+1, endorse threshold >= C+1.",
    "bounded: N<=400 (counting probes), N<=16/40 (signature probes); the unbounded claim is out of reach of any finite run")

chk("C29", "invariant monitor on the real participant selection over configs produced by the real GenesisChainConfig",
    "C+1 distinct proposers, >=2C+1 distinct endorsers and committers, all members of the config, no panic; identical output on repetition, after a JSON copy, and in child processes; selection seed depends only on (height, proposer, vrf). N 4..40, 8 stake shapes + degenerate hand-made tables. 23k / 2.1M evaluations.",
    "")

chk("C30", "metamorphic monitor on the real GenesisChainConfig and the production GetPeersConfig path",
    "One config digest under 20 input orders (incl. real Go map iterations in-process and in 3/50 child processes through vbft.GetPeersConfig on an overlay), selected peers are a top-K set, PosTable holds only selected indices each at least once, more stake => at least as many slots. 5000 / 200000 peer sets.",
    "which equal-stake peer is taken at the K boundary is not fixed by the statement (observation counter)")

chk("C31", "adversarial-message monitor on the real BlockPool with own signature verification",
    "Honest and forged commit/endorse message sets (one faulty committer naming arbitrary endorser indices with garbage / empty / truncated / replicated / swapped / other-hash signatures, non-member indices, duplicates, two proposers, empty commits; 70% shuffled) are fed through newBlockCommitment/newBlockEndorsement; whenever commitDone declares (p, done) the set of peers with a signature verifying over p's block hash (own verification) plus p must reach N-(N-1)/3. 10k / 100k cases.",
    "known finding: signatures valid over another hash than the proposal's are counted (hash not bound to the proposal)")

chk("C32", "forged-header monitor on real VBFT ledgers with own distinct-valid-signer count",
    "On VBFT ledgers with N in {4,7,10} candidate next headers with 16 shapes of bookkeeper / signature lists (members, non-members, duplicates, listed-but-not-signing, repeated signatures, other-hash, garbage) are offered as bytes to AddHeaders and AddBlock; acceptance with fewer than C+1 distinct members having a verifying signature is a violation; the ledger is restored from a snapshot after every acceptance. 2000 / 40000 headers.",
    "")

chk("C33", "forged-header monitor on the header-sync native contract through real invoke transactions",
    "syncGenesisHeader (operator-signed) then syncBlockHeader with 18 shapes of forged side-chain headers per n in {4,7,10}; acceptance is read from committed state; accepted => 3*D >= 2*n for D = distinct stored peers with a verifying signature (own count). 1500 / 40000 headers.",
    "")

chk("C34", "in-process single-height games over the real VBFT handlers (seeded scheduler = asynchronous network + <=C faulty peers) and cluster runs of real vbft.Server processes behind a fault-injecting hub; agreement oracle over seal decisions / ledger histories",
    "(1) 6000 / 200000 games, N in {4,7}: every honest node is a real vbft.Server without goroutines, network and ledger (hook VerifSimNode) whose real onConsensusMsg, processMsgEvent, processTimerEvent, endorseBlock, commitBlock, makeSealed code is pumped one event at a time; the scheduler chooses delivery order, duplicates, which ARMED timer expires, and what the faulty peers say (several different signed proposals, endorse/commit about any known block or empty block to any subset; strategies random / split-brain camps / quiet); verdict: all SealBlock decisions of honest nodes of a game name one block; a divergence is classified by cause from the sealing nodes' own block pools. (2) N=4,C=1 (and N=7,C=2 in thorough) real nodes (NewVbftServer+Start, real tx pool and ledger, one OS process each) exchange signed consensus payloads only through the hub, which after a warm-up applies a seeded schedule: delays/reordering, loss, duplication, intermittent partitions, and <=C Byzantine peers run as equivocating twins (two processes with the same key shown to different audiences) or as a withholding peer; every honest node's (height, hash) history is read through its ledger; verdict: agreement at every height.",
    "3 known findings (protocol-level causes of divergence); games are single-height, proposals carry no transactions; cluster half: wall-clock timers, schedules not bit-reproducible, tens of schedules; forged-content messages are C31's subject")

chk("C41", "role/delegation reference model vs pre-executed and in-block verifyToken, both directions",
    "Real registered ONT IDs, two contracts (script-addressed and APPCALL proxy), ~30 steps per history of admin init/transfer, role assignment, delegation, withdrawal with controlled block times; after every step verifyToken for every (contract, caller, fn) that is or recently was positive plus sampled negatives and 5 key-control variants, incl. time==expiry and expiry+1, must equal the model. 99k / 997k evaluations.",
    "known finding: assignment while holding a delegation is silently dropped")

chk("C45", "authorization-soundness model over all 39 drivable mutating ontid methods through real signed transactions",
    "4 identities x 30-50 ops per history, every mutating method both accepted (right signer) and rejected (wrong signer classes: revoked key, key without auth right, other identity, controller/own key mismatch, empty, bad index, group proofs below threshold ...): success while the model says unauthorised, any change of a revoked id, a failed call changing state, and disagreement of getKeyState / getPublicKeysJson / getControllerJson / getDocumentJson with the model are violations. 12k / 400k evaluations.",
    "pre-fork V0 key storage and threshold-0 groups outside the domain")

chk("C36", "race-amplified invariant monitor on the real ConnectController (barrier-held handshakes from the remote side) + Go race detector",
    "Fresh controller per round (limits 3/2/2 or random small), 2-64 mock remotes on 1..n IPs playing the repo's own handshake behind a gate that holds the reply until every attempt of the phase has passed the pre-handshake check (no sleep inside the code under test); concurrent AcceptConnect / Connect / Close directly and through a real NetServer; at every quiescent point InboundsCount <= limit, per-IP live accepts <= limit, OutboundsCount <= limit, counts equal live successful calls; race reports in connect_controller are violations. 200 / 5000 rounds.",
    "built with -race in both tiers")

chk("C37", "structural-invariant monitor after every Update/Remove on the real routing table + concurrent variant under the race detector",
    "After every operation: each id once across buckets, bucket sizes <= bucketsize, dedicated bucket i holds cpl==i and the last bucket cpl>=index (own cpl), Size() = sum = model set, callbacks fire exactly on model changes, Find agrees; NearestPeers: <=k, distinct, members, sorted by XOR distance (own comparator). Ids adversarially close to the local id, bucket sizes 1/2/20; 4 writers + 2 readers variant checked at quiescence. 320 / 6300 histories.",
    "built with -race in both tiers")

chk("C38", "wallet reference model vs live client and vs a fresh client reloaded from the saved file",
    "Histories of NewAccount (6 key kinds), ImportAccount, DeleteAccount, SetDefaultAccount, SetLabel, ChangePassword (right / former / other / random old password), ChangeSigScheme through ClientImpl; after every op the live client equals the model and failed ops leave the file bytes unchanged; every 4-6 ops and at the end a fresh client on the file equals the model, each account opens with its current password to the same key (sign/verify probe) and refuses former, other and random passwords. 40 / 320 histories (scrypt-bound).",
    "importing an address already in the wallet and empty new passwords are outside the domain (guarded by the CLI)")

# Families added in the second seeding round (appended to the level text of the check).
ROUND2 = {
    "C17": "Round 2: probing contracts ask System.Runtime.CheckWitness with every serialized public-key form of every key type (incl. Ethereum-type and generic secp256k1) besides the account form; key-form answer = account-form answer = own derivation.",
    "C19": "Round 2: step histories on live MutableTransaction/Transaction objects (hash, sign, scalar edits, in-place payload edits through shared pointers, payload replacement, IntoImmutable, reuse for decoding); every reported hash = sha256d of the monitor's own unsigned serialization of its model and = the hash of a fresh object.",
    "C21": "Round 2: token-balance storage items over the full unsigned range (boundary classes around 2^31..2^64-1, magnitude bands, both item versions, arbitrary items) and ONT/ONG approve/allowance end to end.",
    "C23": "Round 2: hand-assembled CHECKMULTISIG scripts with threshold and key count in every push form (PUSHM1..PUSH16, PUSHBYTES1-9, PUSHDATA1/2/4) and value class (wraps modulo 2^8k, negatives, paddings, >1024 keys); an operand that is the count under neither byte order must be rejected; GetSig must agree with GetProgramInfo.",
    "C24": "Round 2: allocation-volume oracle per message type (hostile inner counts in well-formed frames up to MiBs, bound calibrated on the densest well-formed payload of the type) and real link.Link objects over net.Pipe/TCP with pipelined frames, slow consumers and a concurrent closer in 8 modes (no panic, delivered frames re-serialize, in-order subsequence).",
    "C27": "Round 2: member values of every length class up to 256 KiB with flips/cuts/growth in every region of the value; sibling lists differing in the last byte of the longest value.",
    "C29": "Round 2: rounds started by real Server objects (startNewRound/updateParticipantConfig) around a config-change block in 7 kinds of view change, before and after the persist notification, compared with the selection from the configuration in force.",
    "C31": "Round 2: statements restated with fresh randomized signatures (5 modes) on the real pool, and single-node games on a real vbft.Server (N in {4,7,10}) whose other peers and timers the monitor plays: every SealBlock decision needs N-(N-1)/3 distinct verified signers over that block.",
    "C33": "Round 2: peer-set sizes 1..13 with exactly q-1, q, q+1 distinct signers in 4 list layouts; every placement of duplicated signatures for n<=4 and sampled up to 13; 2-3 peer-set changes delivered in every order with probes signed by each known set.",
    "C36": "Round 2: hot-IP rounds (inbound connections from several other IPs, then a barrier wave from one IP) and outbound re-dial scripts (established / handshaking / closed addresses, remote side holds its half of the handshake) judged by the connections the remote sides see established.",
    "C38": "Round 2: every mutating operation at every account position under an obstructed save (failed operation leaves live wallet and file unchanged, also after reload) and the export flow (Clone+ToLowSecurity[+ToDefaultSecurity]+Save) while the original keeps being used.",
    "C43": "Round 2: commits that fail between saveBlockToBlockStore and CommitTo (cross-chain store closed / hook panic) and are retried in the same process with the same or another block; every stored bloom re-read after restart.",
}
for _pid, _t in ROUND2.items():
    CHECKS[_pid]["text"] = CHECKS[_pid]["text"] + " " + _t
