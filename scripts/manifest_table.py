# Table consumed by gen_manifest.py (exec'd).  One chk(...) per claimed property.
HOOK_COMMITS = ["274ee918"]

chk("C09", "algebraic-law monitor on the real issuance functions (additivity, totals) over an exhaustive boundary grid + seeded random triples",
    "Runs the real CalcUnbindOng/CalcGovernanceUnbindOng on every triple of a ~70-point boundary grid per network id (interval edges, both deadlines ±2, 0, 2^32-1) and on seeded random triples, asserting F(s,e)=F(s,m)+F(m,e), F(s,s)=0, and holder+governance totals = ONG supply, also through random piecewise settlements. Exploration: the grid is exhaustive over the listed boundaries, the rest is sampled.",
    "32-bit offsets; balance factor in {1,7,total}; network ids main/polaris/solo/one unknown id")

chk("C01", "crash-point fault injection (verif hook) + on-disk snapshot / real SIGKILL, recovery through the production InitLedger path, differential against an uncrashed reference run",
    "Every one of the 6 crash points of submitBlock is enumerated at every block of seeded chains (both commit paths, mixed tx kinds incl. EVM); each yields the directory a process death would leave, which is reopened with the real recovery code and compared (full state-DB dump, all state merkle roots, block merkle root, event notifies, merkle proofs) with the uncrashed reference at the recovered height, then fed the next reference blocks, then reopened again. Recoveries that replay a block are themselves crashed at 3 recovery points; the eagerly appended merkle hash file is torn at every 32-byte boundary and mid-hash; a child process is SIGKILLed for real at sampled firings.",
    "process death only (page cache survives), LevelDB's own write atomicity trusted; chains of 12 (quick) / 36x5 (thorough) blocks", category="fault_enumeration")
