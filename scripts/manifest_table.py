# Table consumed by gen_manifest.py (exec'd).  One chk(...) per claimed property.
HOOK_COMMITS = ["274ee918", "1925d4ab", "3680c81b"]

chk("C09", "algebraic-law monitor on the real issuance functions (additivity, totals) over an exhaustive boundary grid + seeded random triples",
    "Runs the real CalcUnbindOng/CalcGovernanceUnbindOng on every triple of a ~70-point boundary grid per network id (interval edges, both deadlines ±2, 0, 2^32-1) and on seeded random triples, asserting F(s,e)=F(s,m)+F(m,e), F(s,s)=0, and holder+governance totals = ONG supply, also through random piecewise settlements. Exploration: the grid is exhaustive over the listed boundaries, the rest is sampled.",
    "32-bit offsets; balance factor in {1,7,total}; network ids main/polaris/solo/one unknown id")

chk("C01", "crash-point fault injection (verif hook) + on-disk snapshot / real SIGKILL, recovery through the production InitLedger path, differential against an uncrashed reference run",
    "Every one of the 6 crash points of submitBlock is enumerated at every block of seeded chains (both commit paths, mixed tx kinds incl. EVM); each yields the directory a process death would leave, which is reopened with the real recovery code and compared (full state-DB dump, all state merkle roots, block merkle root, event notifies, merkle proofs) with the uncrashed reference at the recovered height, then fed the next reference blocks, then reopened again. Recoveries that replay a block are themselves crashed at 3 recovery points; the eagerly appended merkle hash file is torn at every 32-byte boundary and mid-hash; a child process is SIGKILLed for real at sampled firings.",
    "process death only (page cache survives), LevelDB's own write atomicity trusted; chains of 12 (quick) / 36x5 (thorough) blocks", category="fault_enumeration")

chk("C39", "mutation monitor on valid next blocks (bytes -> decode -> AddBlock / ExecuteBlock+SubmitBlock) with full-ledger fingerprint before/after",
    "At sampled heights of solo, 4- and 7-bookkeeper chains a valid next block is built and ~25 single-field mutants (height, prev hash, timestamp, block root, tx root, tx list, signature count/validity/signer, state-root argument), re-signed where needed so exactly one check can reject them, are offered through both commit paths; each must return an error and leave height, hashes, the full state-DB dump, all merkle roots and the header index unchanged; the valid block must then still commit with the reference result.",
    "blocks reach the ledger as bytes; VBFT header signature rules are C32's subject")

chk("C40", "cross-query consistency monitor over committed block bytes, across clean and crash-style restarts, concurrent readers under the race detector (thorough)",
    "Every query family (hash by height, block by height/hash, header by hash/height, raw header, transaction by hash with height, containment) is compared with the bytes of the block that was committed, for all heights of short chains and for window + random + header-index-cache-edge heights of a >2000-block chain, live, after Close+reopen and after reopening a copy taken while running; unknown hashes/heights must give not-found.",
    "solo chains built like consensus/solo.makeBlock; pruning disabled")

chk("C42", "state-fingerprint and on-disk-dump invariance monitor around every read-only entry point + differential against a reference ledger that never pre-executed",
    "Hundreds of seeded pre-execution requests that would write (token transfers with fee, storage put/delete, approve, deploy, contract destroy, notify, EVM transfer and create+SSTORE+LOG) go through PreExecuteContract, PreExecuteContractBatch(atomic t/f), PreExecuteEIP155, PreExecuteEip155Tx and TraceEip155Tx; API-level fingerprint after requests, byte dump of every store directory and a probe block's execution per batch must be unchanged; the ledger then commits further blocks in lock-step with a reference ledger; a concurrent variant races pre-executions with commits (race detector in thorough).",
    "WASM pre-execution not driven (JIT unavailable in this sandbox)")

chk("C02", "3-way differential between real ledgers: validating consensus node vs byte-decoding syncing node vs separate-process restarted node, plus repeated execution",
    "Seeded block sequences (token transfers incl. failing ones, contract storage, EVM transfers, deploy) each carrying a transfer authorised by one signer variant - every supported key type incl. Ethereum-type keys, alternative accepted encodings of a P-256 key, PUSHDATA1 form, multisig canonical / reversed key order / with an Ethereum-type member - are validated+executed on node A, decoded from bytes and AddBlock'ed on node B and on node C in a child process (fresh map seeds, restarts); per block the full state dump hash, state root, block root and event notifies must agree; each block is executed 3x on A.",
    "same binary/arch on all nodes; WASM not driven")

chk("C05", "per-transaction write-set monitor on the real block executor (ExecuteBlock of single-tx blocks on committed states) against the fee-only rule",
    "1500/40000 generated invoke transactions (random bytes; scripts that write storage, notify, transfer ONG and then THROW/fault/loop; drain their payer so the fee is unpayable; native calls with random arguments; unauthorised and over-balance transfers; successes) x gas price {0,1,500,2500,random} x gas limits around minimum/code-length gas x 13 graded payer balances. For FAIL: changed keys must be only payer/governance ONG balance, fee conserved, 0<=fee<=balance, GasConsumed=fee, only the fee event; for charged successes GasConsumed = ONG reaching governance.",
    "invoke transactions only (deploy/EIP-155 are chain furniture); WASM invokes not driven")

chk("C43", "log-vs-bloom monitor on committed blocks + exact bit-for-bit comparison of each completed section index with the per-block blooms, across restarts",
    "4200 (quick) / 8400 (thorough) block solo chains with generated LOG0..LOG4 contracts called with random topics/data (incl. reverting calls); every log in the stored events and every log expected by construction must hit the stored block bloom (address + each topic); at every completed 4096-block section all 2048 decompressed bit vectors must equal the blooms they were built from in both directions, live and after restarts inside and exactly at a section end.",
    "filter start height 0 (solo network); logs = generated contracts + native ONG transfer logs")

chk("C35", "history monitor over the real pool -> proposer selection -> ledger commit pipeline with per-block and per-replacement oracles; race detector on concurrent submitters (thorough)",
    "60/1500 seeded histories over 4 funded EVM senders drive txnpool/common.TXPool as the pool server does, select block content exactly like solo.makeBlock/vbft.makeProposal (GetTxPool + IncrementValidator.Verify with the validator's block range), really execute and commit the block (EVM nonces really move), then AddBlock/CleanCompletedTransactionList. Every proposed block: no duplicate hash, nothing already on chain, per sender consecutive nonces starting at the ledger account nonce, block accepted by the ledger. Every accepted same-nonce replacement: strictly higher gas price and the replaced tx is never proposed.",
    "stateful door checks and re-verification of expired entries are mirrored by the harness; the server's actor/worker plumbing is not driven")

chk("C18", "round-trip / canonicity / cursor-model monitor with an independent reference codec and canary-guarded buffers; race detector + checkptr in thorough",
    "Every primitive written by the zero-copy sink must equal an independent reference encoding and read back identically with exact consumption (single values and mixed lists, through both codecs and crosswise); every non-minimal VarUint form must be reported irregular by all six source/reader entry points; 24 source operations in random sequences on hostile fragment-built inputs must match a cursor model (eof exactly on overrun, Pos<=Size, returned slices inside the input - observed via canaries and spare capacity); the io.Reader codec must not allocate beyond input+constant on hostile length prefixes.",
    "1.9M (quick) / 9.7M (thorough) evaluations; serialization.ReadVarUint accepting non-minimal forms is recorded as an observation (the statement's canonicity clause is on the zero-copy source)")

chk("C22", "round-trip + exhaustive single-edit mutation monitor against an independent base58check reference",
    "For 500 / 20000 addresses (incl. all-zero, all-ones, one-bit) every single-character substitution (57 symbols + 6 non-symbols), deletion, insertion and adjacent transposition of the base58 string, all single hex edits, and arbitrary strings (long, leading 1s, other versions, wrong checksums, junk) are decoded by the real code and by an independent reference implementation; accept/reject and the decoded address must agree, an accepted string must re-encode to itself, hex encodings round-trip.",
    "2.8M (quick) / 112M (thorough) evaluations")
