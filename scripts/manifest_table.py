# Table consumed by gen_manifest.py (exec'd).  One chk(...) per claimed property.
HOOK_COMMITS = []

chk("C09", "algebraic-law monitor on the real issuance functions (additivity, totals) over an exhaustive boundary grid + seeded random triples",
    "Runs the real CalcUnbindOng/CalcGovernanceUnbindOng on every triple of a ~70-point boundary grid per network id (interval edges, both deadlines ±2, 0, 2^32-1) and on seeded random triples, asserting F(s,e)=F(s,m)+F(m,e), F(s,s)=0, and holder+governance totals = ONG supply, also through random piecewise settlements. Exploration: the grid is exhaustive over the listed boundaries, the rest is sampled.",
    "32-bit offsets; balance factor in {1,7,total}; network ids main/polaris/solo/one unknown id")
