#!/bin/bash
# run_all.sh [quick|thorough] [ids...]  — runs the checks sequentially, prints exit code and wall time
TIER=${1:-quick}; shift
V=$(cd "$(dirname "$0")/.." && pwd); cd "$V"
IDS=${@:-$(python3 -c "import json;print(' '.join(c['property_id'] for c in json.load(open('MANIFEST.json'))['checks']))")}
for id in $IDS; do
  t0=$(date +%s)
  out=$(./check $id $TIER 2>&1); rc=$?
  t1=$(date +%s)
  echo "$id rc=$rc wall=$((t1-t0))s $(echo "$out" | grep -c '^KNOWN-FINDING') known $(echo "$out" | grep -E '^VIOLATION|^INCONCLUSIVE|BUILD FAILED' | head -2 | cut -c1-200)"
done
