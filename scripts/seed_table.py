#!/usr/bin/env python3
# Regenerates the seeded-change table in DESIGN.md (between the seedtable markers) from seeded/*/*/meta.json.
import json, glob, os, re
V = os.path.dirname(os.path.dirname(os.path.abspath(__file__)))
rows = []
for f in sorted(glob.glob(os.path.join(V, "seeded", "*", "*", "meta.json"))):
    m = json.load(open(f))
    def cell(x, n):
        x = re.sub(r"\s+", " ", str(x or "")).replace("|", "\\|")
        return x if len(x) <= n else x[: n - 1] + "…"
    files = ", ".join(os.path.basename(p) for p in (m.get("files_changed") or []))
    rows.append("| %s/%s (%s) | %s — needs: %s | %s |" % (m["property"], m["variant"], cell(files, 60), cell(m.get("what_it_breaks"), 260), cell(m.get("needs_to_manifest"), 220), cell(m.get("detected_by"), 300)))
p = os.path.join(V, "DESIGN.md")
s = open(p).read()
block = "<!-- seedtable:begin -->\n" + "\n".join(rows) + "\n<!-- seedtable:end -->"
if "SEEDTABLE" in s:
    s = s.replace("SEEDTABLE", block)
else:
    s = re.sub(r"<!-- seedtable:begin -->.*?<!-- seedtable:end -->", lambda _: block, s, flags=re.S)
open(p, "w").write(s)
print("seed rows:", len(rows))
