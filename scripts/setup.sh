#!/bin/bash
# Offline setup: build the wasm link stub and warm the Go build cache for the harness.
set -e
V=$(cd "$(dirname "$0")/.." && pwd)
REPO=${VERIF_REPO:-/repo}
export GOFLAGS=-mod=mod GOPROXY=off GOSUMDB=off GOTOOLCHAIN=local
mkdir -p "$V/build/bin" "$V/build/log" "$V/evidence" "$V/replays"
gcc -c -O1 -I"$REPO/smartcontract/service/wasmvm" "$V/stub/wasmjit_stub.c" -o "$V/build/stub.o"
ar rcs "$V/build/libwasmstub.a" "$V/build/stub.o"
MODFILE=$("$V/scripts/gen_gomod.sh")
export GOFLAGS="-mod=mod -modfile=$MODFILE"
export CGO_LDFLAGS="-L$V/build -lwasmstub"
if [ "${1:-}" != "--nowarm" ]; then
  ( cd "$V/harness" && go build -tags verif ./... ) || { echo "harness build failed"; exit 1; }
fi
echo "setup ok"
