#!/bin/bash
# store_seed.sh <Cxx> <variant> <pkgdir> <test regex> "<detected_by text>" [extra go test flags]
# Confirms a seeded change (scripts/confirm_seed.sh) and, if confirmed, stores it under /verif/seeded/<id>/<variant>/.
id=$1; k=$2; pkg=$3; rx=$4; caught=$5; shift 5
V=$(cd "$(dirname "$0")/.." && pwd)
PFX=${SEED_OUT_PREFIX:-/tmp/seed-out-}
src=$PFX$id/$k
res=$("$V/scripts/confirm_seed.sh" "$src" "$pkg" "$rx" "$@" | head -1)
echo "$id/$k: $res"
python3 - "$id" "$k" "$res" "$caught" "$pkg" "$rx" "$PFX" <<'PY'
import json,sys,os,shutil,glob
id,k,res,caught,pkg,rx,pfx=sys.argv[1:8]
r=json.loads(res)
ok=r.get("applies") and r["demo_on_clean_head_rc"]==0 and r["build_with_patch_rc"]==0 and r["existing_tests_of_touched_packages_rc"]==0 and r["demo_with_patch_rc"]!=0
if not ok:
    print("NOT CONFIRMED - not stored"); sys.exit(1)
d='/verif/seeded/%s/%s'%(id,k); os.makedirs(d,exist_ok=True)
shutil.copy('%s%s/%s/patch.diff'%(pfx,id,k),d)
for f in glob.glob('%s%s/%s/demo*'%(pfx,id,k)):
    if os.path.isfile(f): shutil.copy(f,d)
src=json.load(open('%s%s/%s/meta.json'%(pfx,id,k)))
m={"property":id,"variant":k,"what_it_breaks":src.get("what_it_breaks"),"needs_to_manifest":src.get("needs_to_manifest"),"files_changed":src.get("files_changed"),
   "author":"independent sub-agent given only the property text and a scratch worktree of /repo",
   "how_to_run_demo":"copy the demo test into %s/ of a worktree and run: go test -count=1 -run %s ./%s/ (fails with patch.diff applied, passes without)"%(pkg,rx,pkg),
   "confirmed":r,
   "what_i_ran":"scripts/confirm_seed.sh in a scratch worktree (demo passes on HEAD; patch applies; touched packages build; their existing tests pass with the patch; demo fails with the patch), then scripts/try_seed.sh %s seeded/%s/%s/patch.diff quick (and thorough where noted)"%(id,id,k),
   "detected_by":caught}
json.dump(m,open(d+'/meta.json','w'),indent=1)
print("stored",d)
PY
