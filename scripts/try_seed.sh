#!/bin/bash
# try_seed.sh <Cxx> <patch.diff> [quick|thorough] [seed]
# Runs a check against a scratch worktree of /repo with the patch applied (the same effect as
# `git -C /repo apply`, without disturbing /repo while other jobs build from it).
# Evidence/replays of the run go to a scratch VERIF_DIR, never to /verif/evidence.
ID=$1; PATCH=$(realpath "$2"); TIER=${3:-quick}; SEED=${4:-}
V=$(cd "$(dirname "$0")/.." && pwd)
WT=$(mktemp -d /tmp/try-seed-XXXXXX); rmdir "$WT"
git -C /repo worktree add -q --detach "$WT" HEAD || exit 3
trap 'git -C /repo worktree remove --force "$WT" >/dev/null 2>&1; rm -rf "$VD"' EXIT
git -C "$WT" apply "$PATCH" || { echo "PATCH DOES NOT APPLY"; exit 3; }
VD=$(mktemp -d /var/tmp/vd-seed-XXXXXX)
[ -n "$SEED" ] && export VERIF_SEED=$SEED
VERIF_REPO="$WT" VERIF_DIR="$VD" "$V/check" "$ID" "$TIER" 2>&1 | grep -v "^  observed:" | head -${LINES_MAX:-12}
rc=${PIPESTATUS[0]}
echo "try_seed: check $ID $TIER on patched tree exit=$rc"
rm -f "$V"/build/bin/*-$(echo -n "$WT" | md5sum | cut -c1-8) 2>/dev/null
exit $rc
