#!/bin/bash
# try_seed2.sh <Cxx> <patch> [tier] : like try_seed.sh but applies the patch with a 3-way merge (seeds written
# against an older /repo HEAD), and writes the rebased patch next to the original as patch.rebased.diff.
ID=$1; PATCH=$(realpath "$2"); TIER=${3:-quick}
V=$(cd "$(dirname "$0")/.." && pwd)
WT=$(mktemp -d /tmp/try-seed-XXXXXX); rmdir "$WT"
git -C /repo worktree add -q --detach "$WT" HEAD || exit 3
trap 'git -C /repo worktree remove --force "$WT" >/dev/null 2>&1; rm -rf "$VD"' EXIT
(cd "$WT" && git apply -3 "$PATCH" >/dev/null 2>&1) || { echo "PATCH DOES NOT APPLY (even 3-way)"; exit 3; }
(cd "$WT" && git diff HEAD > "$(dirname "$PATCH")/patch.rebased.diff")
VD=$(mktemp -d /var/tmp/vd-seed-XXXXXX)
VERIF_REPO="$WT" VERIF_DIR="$VD" "$V/check" "$ID" "$TIER" 2>&1 | grep -v "^  observed:" | head -${LINES_MAX:-12}
rc=${PIPESTATUS[0]}
echo "try_seed: check $ID $TIER on patched tree exit=$rc"
rm -f "$V"/build/bin/*-$(echo -n "$WT" | md5sum | cut -c1-8) 2>/dev/null
exit $rc
