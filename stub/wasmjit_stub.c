/* Link-only stand-in for libwasmjit_onto_interface.a (the archive shipped in the
 * repo snapshot is empty, so no package importing wasmvm links).  The WASM JIT is
 * NOT emulated: validate succeeds, invoke returns a trap error, everything that
 * can only be reached from inside a running JIT aborts. */
#include "wasmjit_runtime.h"
#include <stdio.h>
#include <stdlib.h>
#include <string.h>

static void die(const char *f) { fprintf(stderr, "wasmjit stub: %s called\n", f); abort(); }

void wasmjit_bytes_destroy(wasmjit_bytes_t b) { if (b.data) free(b.data); }
wasmjit_bytes_t wasmjit_bytes_new(uint32_t len) { wasmjit_bytes_t b; b.data = len ? calloc(1, len) : NULL; b.len = len; return b; }

typedef struct { uint64_t exec_step, gas_left; } stub_ctx;

wasmjit_chain_context_t *wasmjit_chain_context_create(uint32_t height, h256_t *blockhash, uint64_t timestamp,
    h256_t *txhash, wasmjit_slice_t callers_raw, wasmjit_slice_t witness_raw, wasmjit_slice_t input_raw,
    uint64_t exec_step, uint64_t gas_factor, uint64_t gas_left, uint64_t depth_left, uint64_t service_index) {
  stub_ctx *c = calloc(1, sizeof(stub_ctx)); c->exec_step = exec_step; c->gas_left = gas_left;
  return (wasmjit_chain_context_t *)c;
}
uint64_t wasmjit_chain_context_get_gas(wasmjit_chain_context_t *ctx) { die(__func__); return 0; }
void wasmjit_chain_context_pop_caller(wasmjit_chain_context_t *ctx, address_t *result) { die(__func__); }
void wasmjit_chain_context_push_caller(wasmjit_chain_context_t *ctx, address_t caller) { die(__func__); }
void wasmjit_chain_context_set_gas(wasmjit_chain_context_t *ctx, uint64_t gas) { die(__func__); }
void wasmjit_chain_context_set_calloutput(wasmjit_chain_context_t *ctx, wasmjit_bytes_t bytes) { die(__func__); }
wasmjit_bytes_t wasmjit_chain_context_take_output(wasmjit_chain_context_t *ctx) { die(__func__); wasmjit_bytes_t b = {0, 0}; return b; }

wasmjit_result_t wasmjit_construct_result(uint8_t *data, uint32_t len, wasmjit_result_kind kind) {
  wasmjit_result_t r; r.kind = kind; r.msg.len = len; r.msg.data = NULL;
  if (len) { r.msg.data = malloc(len); memcpy(r.msg.data, data, len); }
  return r;
}
wasmjit_result_t wasmjit_compile(wasmjit_module_t **compiled, wasmjit_slice_t wasm) { die(__func__); wasmjit_result_t r = {0}; return r; }
void wasmjit_instance_destroy(wasmjit_instance_t *instance) { die(__func__); }
wasmjit_result_t wasmjit_instance_invoke(wasmjit_instance_t *i, wasmjit_chain_context_t *c) { die(__func__); wasmjit_result_t r = {0}; return r; }
wasmjit_result_t wasmjit_instantiate(wasmjit_instance_t **i, wasmjit_resolver_t *r0, wasmjit_slice_t w) { die(__func__); wasmjit_result_t r = {0}; return r; }
void wasmjit_module_destroy(wasmjit_module_t *m) { die(__func__); }
wasmjit_result_t wasmjit_module_instantiate(const wasmjit_module_t *m, wasmjit_resolver_t *r0, wasmjit_instance_t **i) { die(__func__); wasmjit_result_t r = {0}; return r; }
void wasmjit_resolver_destroy(wasmjit_resolver_t *r) { die(__func__); }
wasmjit_resolver_t *wasmjit_simple_resolver_create(void) { die(__func__); return NULL; }
wasmjit_result_t wasmjit_validate(wasmjit_slice_t wasm) { wasmjit_result_t r; memset(&r, 0, sizeof r); return r; }
wasmjit_result_t wasmjit_vmctx_memory(wasmjit_vmctx_t *ctx, wasmjit_slice_t *result) { die(__func__); wasmjit_result_t r = {0}; return r; }

uint64_t wasmjit_service_index(wasmjit_vmctx_t *ctx) { die(__func__); return 0; }
wasmjit_ret wasmjit_invoke(wasmjit_slice_t code, wasmjit_chain_context_t *ctx) {
  static const char msg[] = "wasm jit unavailable (verif link stub)";
  stub_ctx *c = (stub_ctx *)ctx; wasmjit_ret r; memset(&r, 0, sizeof r);
  r.exec_step = c->exec_step; r.gas_left = c->gas_left; free(c);
  r.res = wasmjit_construct_result((uint8_t *)msg, sizeof msg - 1, 4 /* trap */);
  return r;
}
void wasmjit_set_calloutput(wasmjit_vmctx_t *ctx, uint8_t *data, uint32_t len) { die(__func__); }
uint64_t wasmjit_get_gas(wasmjit_vmctx_t *ctx) { die(__func__); return 0; }
uint64_t wasmjit_get_exec_step(wasmjit_vmctx_t *ctx) { die(__func__); return 0; }
void wasmjit_set_gas(wasmjit_vmctx_t *ctx, uint64_t gas) { die(__func__); }
void wasmjit_set_exec_step(wasmjit_vmctx_t *ctx, uint64_t exec_step) { die(__func__); }
